"""Engine A driver: build generated modules with the plain toolchain and with garble, compare behaviour."""
import os, re, shutil
from vlib import *
from progen import *

ARGVS = [[], ["a"], ["x", "yy"]]


_rx_addr = re.compile(r"0x[0-9a-f]{9,16}\b")
def split_units(out):
    """Split program stdout into {unit number: text}."""
    secs, cur = {0: []}, 0
    for line in out.decode(errors="replace").split("\n"):
        line = _rx_addr.sub("0xADDR", line)    # heap addresses (the heap base is randomised since Go 1.26) are not program semantics
        m = re.match(r"== unit (\d+) ", line)
        if m:
            cur = int(m.group(1))
            secs[cur] = []
        secs[cur].append(line)
    return {k: "\n".join(v) for k, v in secs.items()}


class PackResult:
    def __init__(self):
        self.build_ok = None
        self.plain_ok = None
        self.garble_stderr = b""
        self.bad_units = {}       # n -> description
        self.runs = 0


def build_pack(g, units, gflags, extra_env=None, header=PTR_HELPER, argvs=ARGVS, build_args=(), keep=False, plain_cache=None):
    """units: [(n, Unit)]. Returns PackResult. plain build failing is a generator bug (reported as plain_ok False)."""
    d = g.newdir("pack")
    files = assemble(units, header_main=header)
    write_module(d, files, modpath=MOD)
    r = PackResult()
    r.dir = d
    p0 = g.go(["build", "-trimpath", "-o", "plain"] + list(build_args) + ["."], d)
    r.plain_ok = p0.returncode == 0
    if not r.plain_ok:
        r.garble_stderr = p0.stderr
        return r
    p = g.garble(gflags, "build", ["-o", "out"] + list(build_args) + ["."], d, extra_env=extra_env)
    r.build_ok = p.returncode == 0
    r.garble_stderr = p.stderr
    if r.build_ok:
        for av in argvs:
            a = exec_bin(d + "/plain", av)
            b = exec_bin(d + "/out", av)
            r.runs += 1
            if a.returncode != b.returncode:
                r.bad_units[-1] = "exit status %d vs %d with args %s" % (a.returncode, b.returncode, av)
            sa, sb = split_units(a.stdout), split_units(b.stdout)
            sa2 = None
            for k in sorted(set(sa) | set(sb)):
                if sa.get(k) != sb.get(k) and k not in r.bad_units:
                    # a unit whose output differs between two runs of the plain binary itself is nondeterministic: not comparable
                    if sa2 is None: sa2 = split_units(exec_bin(d + "/plain", av).stdout)
                    if sa2.get(k) != sa.get(k):
                        r.nondeterministic = getattr(r, "nondeterministic", 0) + 1
                        continue
                    r.bad_units[k] = "args %s: plain build prints\n%s\ngarbled build prints\n%s" % (av, short(sa.get(k, "<missing>"), 800), short(sb.get(k, "<missing>"), 800))
    if not keep:
        shutil.rmtree(d, ignore_errors=True)
    return r


def bisect_build_failure(g, units, gflags, extra_env=None, build_args=(), max_rounds=40):
    """Delta-debug a garble build failure down to a small set of units. Returns list of (n, Unit)."""
    cur = list(units)
    rounds = 0
    def fails(us):
        r = build_pack(g, us, gflags, extra_env, argvs=[], build_args=build_args)
        return r.plain_ok and r.build_ok is False
    n = 2
    while len(cur) >= 2 and rounds < max_rounds:
        chunk = max(1, len(cur) // n)
        subsets = [cur[i:i + chunk] for i in range(0, len(cur), chunk)]
        reduced = False
        for s in subsets:
            rounds += 1
            if fails(s):
                cur, n, reduced = s, 2, True
                break
        if not reduced:
            for s in subsets:
                comp = [u for u in cur if u not in s]
                rounds += 1
                if comp and fails(comp):
                    cur, n, reduced = comp, max(n - 1, 2), True
                    break
        if not reduced:
            if n >= len(cur):
                break
            n = min(len(cur), n * 2)
    return cur


def unit_sources(units):
    files = assemble(units, header_main=PTR_HELPER)
    return files
