"""Engine A: program-space generator (DESIGN.md 3.A).

A *unit* is a small group of declarations spread over the packages of one generated module plus a
function body placed in package main that prints observable values. Units are parameterised and
every parameter tuple is generated. Programs are assembled from many units (packed into one module
so that one garble build judges many); on a failure the caller bisects.

Identifier uniqueness: templates use `@` which is replaced by the unit's number.

Packages of the generated module (module path example.com/vmod):
  main                         (directory .)
  a    example.com/vmod/lib/a
  bc   example.com/vmod/lib/b.c          (import path with a dot, package name bc)
  x    example.com/vmod/lib/a/internal/x
  nm   example.com/vmod/lib/named        (package name `differs`)
"""
import itertools, os, re, json
from vlib import write, write_module

MOD = "example.com/vmod"
PKGS = {
    "a": (MOD + "/lib/a", "a", "lib/a"),
    "bc": (MOD + "/lib/b.c", "bc", "lib/b.c"),
    "x": (MOD + "/lib/a/internal/x", "x", "lib/a/internal/x"),
    "nm": (MOD + "/lib/named", "differs", "lib/named"),
    "us": (MOD + "/lib/under_score2", "under_score2", "lib/under_score2"),
}
# import graph between library packages: a -> x, a -> bc ; nm -> bc ; main -> all except x (internal to lib/a: not importable from main)
LIB_IMPORTS = {"a": ["x", "bc"], "bc": [], "x": [], "nm": ["bc"], "us": []}


class Unit:
    def __init__(self, name, body, decls="", pkgs=None, imports=(), tags=(), files=None, test=None):
        """body: statements of func u@() in package main; decls: package-level decls in main;
        pkgs: {pkgkey: decls}; imports: std import paths needed by main part (lib packages that have
        decls are imported automatically when referenced as `a.` `bc.` `differs.`);
        files: extra raw files {relpath: content} (e.g. assembly); tags: free-form labels."""
        self.name, self.body, self.decls = name, body, decls
        self.pkgs = pkgs or {}
        self.imports = list(imports)
        self.tags = set(tags)
        self.files = files or {}
        self.test = test


STD_ALIASES = {"fmt": "fmt", "os": "os", "strings": "strings", "errors": "errors", "sort": "sort", "strconv": "strconv",
               "sync": "sync", "time": "time", "unsafe": "unsafe", "bytes": "bytes"}


def _used_imports(src, candidates):
    """Pick the imports a file really uses (so generated files never have unused imports)."""
    out = []
    src = "\n".join(l for l in src.split("\n") if not l.lstrip().startswith("//"))
    src = re.sub(r'"(?:[^"\\\n]|\\.)*"', '""', src)
    for path, name in candidates:
        if re.search(r"(?<![\w./])%s\." % re.escape(name), src):
            out.append((path, name))
    return out


def _import_block(imps):
    if not imps:
        return ""
    lines = []
    for path, name in imps:
        base = path.rsplit("/", 1)[-1]
        if base == name:
            lines.append('\t"%s"' % path)
        else:
            lines.append('\t%s "%s"' % (name, path))
    return "import (\n" + "\n".join(lines) + "\n)\n\n"


def std_candidates(extra=()):
    c = [("fmt", "fmt"), ("os", "os"), ("strings", "strings"), ("errors", "errors"), ("sort", "sort"), ("strconv", "strconv"),
         ("sync", "sync"), ("time", "time"), ("unsafe", "unsafe"), ("bytes", "bytes"), ("reflect", "reflect"),
         ("encoding/json", "json"), ("runtime", "runtime"), ("runtime/debug", "debug"), ("text/template", "template"),
         ("sync/atomic", "atomic"), ("io", "io"), ("math", "math")]
    for e in extra:
        if isinstance(e, tuple):
            c.append(e)
    return c


def assemble(units, header_main="", main_extra="", modpath=MOD, print_args=True, call_guard=True):
    """Returns dict relpath -> content for a module holding the given units."""
    files = {}
    pkgsrc = {k: [] for k in PKGS}
    calls = []
    for n, u in units:
        sub = lambda s: s.replace("@", str(n))
        src = sub(u.decls) + "\nfunc u%d() {\n%s\n}\n" % (n, sub(u.body))
        cands = std_candidates() + [(PKGS[k][0], PKGS[k][1]) for k in ("a", "bc", "nm", "us")]
        files["u%d.go" % n] = "package main\n\n" + _import_block(_used_imports(src, cands)) + src
        for k, d in u.pkgs.items():
            psrc = sub(d)
            cands = std_candidates() + [(PKGS[j][0], PKGS[j][1]) for j in LIB_IMPORTS[k]]
            files["%s/u%d.go" % (PKGS[k][2], n)] = "package %s\n\n" % PKGS[k][1] + _import_block(_used_imports(psrc, cands)) + psrc
        for rel, c in u.files.items():
            files[sub(rel)] = sub(c)
        calls.append((n, u.name))
    # every library package always exists (with its import edges), so import graph shape is constant
    for k, (path, name, d) in PKGS.items():
        edges = "".join('import _ "%s"\n' % PKGS[j][0] for j in LIB_IMPORTS[k])
        files["%s/base.go" % d] = "package %s\n\n%s\n// Base%s keeps the package non-empty.\nfunc Base%s() string { return \"%s\" }\n" % (
            name, edges, name.title(), name.title(), k)
    m = ["package main\n\nimport (\n\t\"fmt\"\n\t\"os\"\n"]
    m += ['\t_ "%s"\n' % PKGS[k][0] for k in ("a", "bc", "nm", "us")]
    m.append(")\n\n" + header_main + "\nfunc guard(n int, name string, f func()) {\n"
             "\tdefer func() {\n\t\tif r := recover(); r != nil {\n\t\t\tfmt.Println(\"unit\", n, \"panic:\", r)\n\t\t}\n\t}()\n"
             "\tfmt.Println(\"== unit\", n, name)\n\tf()\n}\n\n"
             "func main() {\n")
    if print_args:
        m.append("\tfmt.Println(\"args:\", len(os.Args)-1, os.Args[1:])\n")
    else:
        m.append("\t_ = os.Args\n")
    m.append(main_extra)
    for n, name in calls:
        m.append("\tguard(%d, %s, u%d)\n" % (n, json.dumps(name), n))
    m.append("}\n")
    files["main.go"] = "".join(m)
    return files


def number(units, start=1):
    return list(zip(range(start, start + len(units)), units))


# ---------------------------------------------------------------------------------------------
# Type algebra: chains of type constructors over a base struct, each link placed in a package.
# ---------------------------------------------------------------------------------------------

class TChain:
    """A generated type with everything needed to declare, construct and access it."""
    def __init__(self):
        self.decls = {"main": [], "a": [], "bc": []}
        self.links = []
        self.desc = ""


def _q(pkg, name, frm):
    """Qualified name of pkg.name as seen from package frm."""
    if pkg == frm:
        return name
    return "%s.%s" % ({"a": "a", "bc": "bc", "main": "main"}[pkg], name)


CONSTRUCTORS = ["alias", "pointer", "embed", "embedptr", "generic", "slice", "map", "array", "genericembed"]


def type_chains(depth, base_pkgs=("a", "main"), link_pkgs=("same", "other"), constructors=CONSTRUCTORS):
    """Yield (desc, build) for every chain of `depth` constructors x placement. build(n, frm) returns a dict with
    decls per package, the type expression, a value constructor and an access expression to the base struct, all as
    seen from package `frm` ('main'). Only lib package 'a' and 'bc' and main are used; main cannot be imported,
    so a link placed in 'main' must be followed only by links in main."""
    for bp in base_pkgs:
        for cons in itertools.product(constructors, repeat=depth):
            for places in itertools.product(link_pkgs, repeat=depth):
                yield ("%s:%s:%s" % (bp, "+".join(cons), "+".join(places)), bp, cons, places)


def build_chain(n, bp, cons, places, exported=True):
    """Returns None if the chain is not expressible (rules of embedding / visibility), else a dict."""
    decls = {"main": [], "a": [], "bc": []}
    S = "S%d" % n if exported else "s%d" % n
    F = "F" if exported else "f"
    M = "M" if exported else "m"
    # base struct with an exported and an unexported field, value method and pointer method
    decls[bp].append(
        "type %(S)s struct {\n\tF int\n\tg string\n\tH []string\n}\n\n"
        "func (s %(S)s) M() int { return s.F*2 + len(s.g) }\n\n"
        "func (s *%(S)s) PM() int { s.F++; return s.F }\n\n"
        "func (s %(S)s) unexp() string { return s.g + \"!\" }\n\n"
        "func New%(S)s(f int, g string) %(S)s { return %(S)s{F: f, g: g, H: []string{g}} }\n\n"
        "func Unexp%(S)s(s %(S)s) string { return s.unexp() }\n" % {"S": S})
    cur_pkg = bp               # package where the current outermost type lives (for naming/visibility)
    # type expression is tracked as a function of the viewing package
    tname = (bp, S)            # named type (pkg, name) or None
    texpr = lambda frm, t=tname: _q(t[0], t[1], frm)
    embeddable = "name"        # 'name' | 'ptrname' | None
    embname = S                # field name when embedded
    mk = lambda frm, f="7", gs='"g"': "%s(%s, %s)" % (_q(bp, "New" + S, frm), f, gs)     # value constructor seen from frm
    acc = lambda e: e          # access expr from outer value expr to base struct value (may be pointer: selectors auto-deref)
    is_ptr = False             # is the *base access* a pointer (affects method expression / interface assign)
    has_methods = True         # does the outermost type itself expose M (for promoted use sites)
    idx = 0
    for c, pl in zip(cons, places):
        idx += 1
        pkg = cur_pkg if pl == "same" else ("bc" if cur_pkg == "a" else ("a" if cur_pkg == "bc" else "main"))
        if cur_pkg == "main" and pkg != "main":
            return None        # main cannot be imported
        # can package `pkg` see the current type? only if it is main (imports everything) or imports cur_pkg: a->bc allowed, bc->a not.
        if pkg != cur_pkg:
            if not (pkg == "main" or (pkg == "a" and cur_pkg == "bc")):
                # 'other' for bc means a; a imports bc: fine. 'other' for a means bc: bc cannot import a -> put it in main instead.
                pkg = "main"
        prev_t, prev_mk, prev_acc = texpr, mk, acc
        nm = "%s%d_%d" % ({"alias": "A", "defined": "D", "embed": "E", "embedptr": "EP", "generic": "G", "genericembed": "GE"}.get(c, "X"), n, idx)
        if c == "alias":
            decls[pkg].append("type %s = %s\n" % (nm, prev_t(pkg)))
            t = (pkg, nm)
            texpr = lambda frm, t=t: _q(t[0], t[1], frm)
            embeddable = "name" if embeddable in ("name",) else (None if embeddable is None else None)
            # alias of a pointer type cannot be embedded as *A; alias of a named type can be embedded
            embname = nm
            cur_pkg = pkg
        elif c == "pointer":
            texpr = lambda frm, pt=prev_t: "*" + pt(frm)
            mk = lambda frm, f="7", gs='"g"', pm=prev_mk, pt=prev_t: "ptr[%s](%s)" % (pt(frm), pm(frm, f, gs))
            acc = lambda e, pa=prev_acc: pa("(*%s)" % e)
            embeddable = "ptrname" if embeddable == "name" else None
            # cur_pkg unchanged (no declaration)
        elif c in ("embed", "embedptr"):
            if c == "embed" and embeddable != "name":
                return None
            if c == "embedptr" and embeddable != "name":
                return None
            star = "*" if c == "embedptr" else ""
            decls[pkg].append("type %s struct {\n\t%s%s\n\tExtra%d int\n}\n" % (nm, star, prev_t(pkg), idx))
            t = (pkg, nm)
            texpr = lambda frm, t=t: _q(t[0], t[1], frm)
            en = embname
            if c == "embed":
                mk = lambda frm, f="7", gs='"g"', t=t, pm=prev_mk, en=en, i=idx: "%s{%s: %s, Extra%d: %d}" % (_q(t[0], t[1], frm), en, pm(frm, f, gs), i, i)
            else:
                mk = lambda frm, f="7", gs='"g"', t=t, pm=prev_mk, pt=prev_t, en=en, i=idx: "%s{%s: ptr[%s](%s), Extra%d: %d}" % (
                    _q(t[0], t[1], frm), en, pt(frm), pm(frm, f, gs), i, i)
            acc = lambda e, pa=prev_acc, en=en, star=star: pa(("(*%s.%s)" if star else "%s.%s") % (e, en))
            embeddable, embname, cur_pkg = "name", nm, pkg
        elif c == "generic":
            decls[pkg].append("type %s[T any] struct {\n\tV T\n\tw T\n}\n\nfunc (g %s[T]) Get() T { return g.V }\n\nfunc Mk%s[T any](v T) %s[T] { return %s[T]{V: v, w: v} }\n" % (nm, nm, nm, nm, nm))
            t = (pkg, nm)
            texpr = lambda frm, t=t, pt=prev_t: "%s[%s]" % (_q(t[0], t[1], frm), pt(frm))
            mk = lambda frm, f="7", gs='"g"', t=t, pm=prev_mk, pt=prev_t: "%s[%s](%s)" % (_q(t[0], "Mk" + t[1], frm), pt(frm), pm(frm, f, gs))
            acc = lambda e, pa=prev_acc: pa("%s.Get()" % e)
            embeddable, embname, cur_pkg = "name", nm, pkg   # embedding G[X] uses field name G
        elif c == "genericembed":
            # generic struct that embeds the previous (named) type and carries a type parameter field
            if embeddable != "name":
                return None
            decls[pkg].append("type %s[T any] struct {\n\t%s\n\tTag T\n}\n" % (nm, prev_t(pkg)))
            t = (pkg, nm)
            texpr = lambda frm, t=t: "%s[string]" % _q(t[0], t[1], frm)
            en = embname
            mk = lambda frm, f="7", gs='"g"', t=t, pm=prev_mk, en=en: "%s[string]{%s: %s, Tag: \"t\"}" % (_q(t[0], t[1], frm), en, pm(frm, f, gs))
            acc = lambda e, pa=prev_acc, en=en: pa("%s.%s" % (e, en))
            embeddable, embname, cur_pkg = "name", nm, pkg
        elif c == "slice":
            texpr = lambda frm, pt=prev_t: "[]" + pt(frm)
            mk = lambda frm, f="7", gs='"g"', pm=prev_mk, pt=prev_t: "[]%s{%s}" % (pt(frm), pm(frm, f, gs))
            acc = lambda e, pa=prev_acc: pa("%s[0]" % e)
            embeddable = None
        elif c == "map":
            texpr = lambda frm, pt=prev_t: "map[string]" + pt(frm)
            mk = lambda frm, f="7", gs='"g"', pm=prev_mk, pt=prev_t: "map[string]%s{\"k\": %s}" % (pt(frm), pm(frm, f, gs))
            acc = lambda e, pa=prev_acc: pa("%s[\"k\"]" % e)
            embeddable = None
        elif c == "array":
            texpr = lambda frm, pt=prev_t: "[2]" + pt(frm)
            mk = lambda frm, f="7", gs='"g"', pm=prev_mk, pt=prev_t: "[2]%s{%s, %s}" % (pt(frm), pm(frm, f, gs), pm(frm, "9", '"h"'))
            acc = lambda e, pa=prev_acc: pa("%s[1]" % e)
            embeddable = None
    return {"decls": decls, "texpr": texpr, "mk": mk, "acc": acc, "S": S, "bp": bp, "top_pkg": cur_pkg}


PTR_HELPER = "func ptr[T any](v T) *T { return &v }\n"


def chain_units(depth, constructors=None, with_reflect=False):
    """One Unit per expressible chain; the body exercises the fixed list of use sites."""
    cons_list = constructors or CONSTRUCTORS
    out = []
    for desc, bp, cons, places in type_chains(depth, constructors=cons_list):
        # dedupe placements that are irrelevant for non-declaring constructors
        skip = False
        for c, pl in zip(cons, places):
            if c in ("pointer", "slice", "map", "array") and pl == "other":
                skip = True
        if skip:
            continue
        ch = build_chain(0, bp, cons, places)
        if ch is None:
            continue
        out.append(_chain_unit(desc, bp, cons, places, with_reflect))
    return out


def _chain_unit(desc, bp, cons, places, with_reflect):
    # build with '@' as the number: we need the number inside names -> build lazily using placeholder 990099 then substitute
    ch = build_chain(990099, bp, cons, places)
    def fix(s):
        return s.replace("990099", "@")
    T = fix(ch["texpr"]("main"))
    mk = fix(ch["mk"]("main"))
    mk2 = fix(ch["mk"]("main", "11", '"zz"'))
    accv = fix(ch["acc"]("v"))
    accw = fix(ch["acc"]("w"))
    S = fix(_q(bp, ch["S"], "main"))
    body = []
    body.append("\tvar v %s = %s" % (T, mk))
    body.append("\tw := %s" % mk2)
    body.append("\tb := %s" % accv)
    body.append("\tfmt.Println(b.F, b.M(), len(b.H), %s.F)" % accw)
    body.append("\tf := b.M\n\tfmt.Println(f())")                       # method value
    body.append("\tfmt.Println(%s.M(b))" % S)                           # method expression
    body.append("\tpm := (*%s).PM\n\tfmt.Println(pm(&b), b.F)" % S)     # pointer method expression
    body.append("\tvar i interface{ M() int } = b\n\tfmt.Println(i.M())")
    body.append("\tswitch t := any(v).(type) {\n\tcase int:\n\t\tfmt.Println(\"int\")\n\tcase %s:\n\t\t_ = t\n\t\tfmt.Println(\"case T\")\n\tdefault:\n\t\tfmt.Println(\"other\")\n\t}" % T)
    body.append("\tfmt.Println(%s(b))" % fix(_q(bp, "Unexp" + ch["S"], "main")))
    body.append("\tc := %s{F: 3}\n\tfmt.Println(c.F, c.M())" % S)       # keyed literal of the base
    if with_reflect:
        body.append("\tfmt.Printf(\"%+v\\n\", b)\n\tjs, _ := json.Marshal(b)\n\tfmt.Println(string(js))\n\trt := reflect.TypeOf(b)\n\tfmt.Println(rt.Name(), rt.NumField(), rt.Field(0).Name, rt.Field(1).Name)\n"
                    "\trv := reflect.TypeOf(v)\n\tfor rv.Kind() == reflect.Ptr || rv.Kind() == reflect.Slice || rv.Kind() == reflect.Array || rv.Kind() == reflect.Map {\n\t\trv = rv.Elem()\n\t}\n"
                    "\tif rv.Kind() == reflect.Struct {\n\t\tfor i := 0; i < rv.NumField(); i++ {\n\t\t\tfmt.Print(rv.Field(i).Name, \" \")\n\t\t}\n\t\tfmt.Println(rv.Name() != \"\")\n\t}")
    body.append("\t_ = w")
    decls = {k: fix("\n".join(v)) for k, v in ch["decls"].items() if v}
    main_decls = decls.pop("main", "")
    return Unit("chain " + desc, "\n".join(body), decls=main_decls, pkgs=decls, tags={"chain"})
