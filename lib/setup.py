import sys, os
sys.path.insert(0, os.path.dirname(os.path.abspath(__file__)))
from vlib import *

log("building garble from", REPO)
g = Garble(name="setup")
hb = build_hooked()
crashsup_bin()
log("garble:", g.bin, "hooked:", hb)
FAT = '''package main
import ("fmt";"encoding/json";"reflect";"os";"strings";"strconv";"sort";"errors";"runtime";"runtime/debug";"sync";"time";"bytes";"text/template";"unsafe";"sync/atomic";"math";"io")
type T struct{A int}
var _ = template.New
var _ = debug.Stack
var _ unsafe.Pointer
var _ atomic.Int32
var _ = math.Abs
var _ io.Reader
func main(){b,_:=json.Marshal(T{1});fmt.Println(string(b),reflect.TypeOf(T{}).Name(),strings.ToUpper(os.Args[0][:0]),strconv.Itoa(1),sort.IsSorted(nil),errors.New("x"),runtime.NumCPU()>0, sync.Mutex{}, time.Duration(1), bytes.NewBuffer(nil).Len())}
'''
configs = [[], ["-tiny"], ["-literals"], ["-seed=AAAAAAAAAAA"], ["-literals", "-tiny", "-seed=AAAAAAAAAAA"]]
if "--min" in sys.argv:
    configs = configs[:1]
d = g.newdir()
write_module(d, {"main.go": FAT})
# first one alone (fills the plain std export data and builds the patched linker), the rest in parallel
def one(flags):
    p = g.garble(flags, "build", ["-o", "out" + "".join(flags), "."], d)
    log("warm", flags, "->", p.returncode, short(p.stderr, 300) if p.returncode else "")
    return p.returncode
rc = one(configs[0])
rcs = pmap(one, configs[1:], workers=4)
if rc or any(rcs):
    sys.exit(1)
log("setup done")
