"""Cache plumbing for the history / fault / crash engines (engine C): per-configuration base caches in which the
standard library is already built (plain export data + garbled for that garble binary and configuration), and cheap
composition of several bases into a private cache pair."""
import os, shutil, subprocess, hashlib
from vlib import *

FAT = '''package main

import (
	"bytes"
	"encoding/json"
	"errors"
	"fmt"
	"io"
	"math"
	"os"
	"reflect"
	"runtime"
	"runtime/debug"
	"sort"
	"strconv"
	"strings"
	"sync"
	"sync/atomic"
	"text/template"
	"time"
	"unsafe"
)

type T struct{ A int }

var _ = template.New
var _ = debug.Stack
var _ unsafe.Pointer
var _ atomic.Int32
var _ = math.Abs
var _ io.Reader

func main() {
	b, _ := json.Marshal(T{1})
	fmt.Println(string(b), reflect.TypeOf(T{}).Name(), strings.ToUpper(os.Args[0][:0]), strconv.Itoa(1), sort.IsSorted(nil), errors.New("x"),
		runtime.NumCPU() > 0, sync.Mutex{}, time.Duration(1), bytes.NewBuffer(nil).Len())
}
'''


def cfgkey(flags, env=None, buildflags=()):
    s = " ".join(flags) + "|" + " ".join("%s=%s" % kv for kv in sorted((env or {}).items())) + "|" + " ".join(buildflags)
    return hashlib.sha256(s.encode()).hexdigest()[:12]


def fast_clone(src, dst):
    """Clone a go-style cache: data files (immutable, content addressed) are hard-linked, everything else is copied.
    Existing files in dst are kept (merging several bases)."""
    for root, dirs, files in os.walk(src):
        rel = os.path.relpath(root, src)
        os.makedirs(os.path.join(dst, rel), exist_ok=True)
        for f in files:
            s, d = os.path.join(root, f), os.path.join(dst, rel, f)
            if os.path.lexists(d):
                continue
            if f.endswith("-d"):
                try:
                    os.link(s, d)
                    continue
                except OSError:
                    pass
            shutil.copy2(s, d)


def base_dir(garble_bin):
    # keyed by the binary's content: a rebuilt binary that differs (stamps, toolchain) never inherits another one's caches
    th = os.path.basename(os.path.dirname(garble_bin)) + "-" + sha256_file(garble_bin)[:12]
    return os.path.join(CACHE, "base", th)


def ensure_base(g, flags, env=None, buildflags=(), modpath="example.com/fat", extra_files=None):
    """Directory with gocache/ and garblecache/ holding the standard library built for this configuration by this garble binary."""
    root = base_dir(g.bin)
    key = cfgkey(flags, env, buildflags)
    d = os.path.join(root, key)
    with lock(d + ".lock"):
        if os.path.exists(os.path.join(d, "ok")):
            return d
        shutil.rmtree(d, ignore_errors=True)
        os.makedirs(d)
        # start from the shared caches' plain std if present (saves the 50 s plain export build)
        plain = os.path.join(CACHE, "base", "plain")
        with lock(plain + ".lock"):
            if not os.path.exists(os.path.join(plain, "ok")):
                shutil.rmtree(plain, ignore_errors=True)
                os.makedirs(plain)
                gp = Garble(binpath=g.bin, gocache=os.path.join(plain, "gocache"), garblecache=os.path.join(plain, "garblecache"), name="base")
                pd = gp.newdir("fat")
                write_module(pd, {"main.go": FAT}, modpath="example.com/fat")
                p = gp.garble([], "build", ["-o", os.devnull, "."], pd)
                if p.returncode != 0:
                    log("FATAL: cannot prepare the plain base cache:", short(p.stderr, 2000)); sys.exit(2)
                write(os.path.join(plain, "ok"), "")
        fast_clone(os.path.join(plain, "gocache"), os.path.join(d, "gocache"))
        fast_clone(os.path.join(plain, "garblecache"), os.path.join(d, "garblecache"))
        gb = Garble(binpath=g.bin, gocache=os.path.join(d, "gocache"), garblecache=os.path.join(d, "garblecache"), name="base")
        pd = gb.newdir("fat")
        files = {"main.go": FAT}
        files.update(extra_files or {})   # e.g. a package that a GOGARBLE pattern of the configuration must match
        write_module(pd, files, modpath=modpath)
        p = gb.garble(flags, "build", ["-o", os.devnull] + list(buildflags) + ["."], pd, extra_env=env)
        if p.returncode != 0:
            log("FATAL: cannot prepare base cache for", flags, env, short(p.stderr, 2000)); sys.exit(2)
        write(os.path.join(d, "ok"), " ".join(flags))
    _prune_bases(keep=os.path.basename(root))
    return d


def _prune_bases(keep):
    b = os.path.join(CACHE, "base")
    ents = [e for e in os.listdir(b) if os.path.isdir(os.path.join(b, e)) and e not in (keep, "plain")]
    ents.sort(key=lambda e: os.path.getmtime(os.path.join(b, e)))
    now = time.time()
    for e in ents[:-3]:
        if now - os.path.getmtime(os.path.join(b, e)) > 6 * 3600:   # never under a check that may still be using it
            shutil.rmtree(os.path.join(b, e), ignore_errors=True)


def compose(dst, bases):
    """Private cache pair made of the given bases. Returns (gocache, garblecache)."""
    shutil.rmtree(dst, ignore_errors=True)
    for b in bases:
        fast_clone(os.path.join(b, "gocache"), os.path.join(dst, "gocache"))
        fast_clone(os.path.join(b, "garblecache"), os.path.join(dst, "garblecache"))
    return os.path.join(dst, "gocache"), os.path.join(dst, "garblecache")


def link_clone(src, dst):
    """Fastest clone: hard-link everything (cp -al). Only for short-lived per-case copies of a state whose files the
    case either leaves alone, rewrites with identical bytes, or replaces after unlinking (faults break the link first)."""
    if os.path.exists(dst):
        shutil.rmtree(dst)
    os.makedirs(os.path.dirname(dst), exist_ok=True)
    subprocess.run(["cp", "-al", src, dst], check=True)
    # the patched linker can be rewritten in place (cross-device install): never share its inode
    for root, _, files in os.walk(dst):
        if os.path.basename(root) == "tool":
            for f in files:
                p = os.path.join(root, f)
                data = read(p, "rb"); mode = os.stat(p).st_mode
                os.remove(p); write(p, data, "wb"); os.chmod(p, mode)
    return dst
