"""Unit catalogue for C01 (and reused by other engine-A checks). Every parameter tuple of every family is generated.

Conventions: `@` = unit number; programs never print identifier names, positions or build metadata.
"""
import itertools
from progen import Unit, MOD, PKGS

OTHER = {"a": "a", "bc": "bc"}


def q(pkg, name):
    return name if pkg == "main" else "%s.%s" % ({"a": "a", "bc": "bc", "nm": "differs"}[pkg], name)


def units_structs():
    out = []
    # embedding: value/pointer embedded struct x declared in {main,a,bc} x promoted field/method, shadowing
    for pkg, ptr, shadow in itertools.product(("main", "a", "bc"), (False, True), (False, True)):
        inner = ("type Inner@ struct {\n\tN int\n\tlabel string\n}\n\nfunc (i Inner@) Get() int { return i.N + len(i.label) }\n\n"
                 "func (i *Inner@) Set(n int) { i.N = n }\n\nfunc NewInner@(n int, l string) Inner@ { return Inner@{N: n, label: l} }\n")
        I = q(pkg, "Inner@")
        outer = "type Outer@ struct {\n\t%s%s\n\tSelf int\n%s}\n" % ("*" if ptr else "", I, "\tN string\n" if shadow else "")
        new = '%s(5, "lab")' % q(pkg, "NewInner@")
        mk = "Outer@{Inner@: %s, Self: 2%s}" % ("ptrTo@(%s)" % new if ptr else new, ', N: "shadow"' if shadow else "")
        body = ("\to := %s\n\to.Set(9)\n\tfmt.Println(o.Get(), o.Inner@.N, o.Self, o.N)\n"
                "\tvar g interface{ Get() int } = o\n\tfmt.Println(g.Get())\n" % mk)
        decls = outer + "\nfunc ptrTo@(i %s) *%s { return &i }\n" % (I, I)
        out.append(Unit("embed pkg=%s ptr=%s shadow=%s" % (pkg, ptr, shadow), body,
                        decls=(inner if pkg == "main" else "") + decls, pkgs={} if pkg == "main" else {pkg: inner}))
    # anonymous structs, nested struct literals, struct tags, unkeyed literals across packages
    out.append(Unit("anonymous struct values", "\tv := struct {\n\t\tA int\n\t\tb string\n\t}{1, \"x\"}\n\tw := struct {\n\t\tA int\n\t\tb string\n\t}{A: 2}\n\tw = v\n\tfmt.Println(v.A, w.b, a.Anon@().Count, a.Anon@().inner())\n",
                    pkgs={"a": "type anonRet@ struct {\n\tCount int\n\thidden int\n}\n\nfunc (r anonRet@) inner() int { return r.hidden }\n\nfunc Anon@() anonRet@ { return anonRet@{3, 4} }\n"}))
    out[-1].body = out[-1].body.replace("a.Anon@().inner()", "a.AnonInner@()")
    out[-1].pkgs["a"] += "\nfunc AnonInner@() int { return Anon@().inner() }\n"
    out.append(Unit("unkeyed literal across packages", "\tp := a.Pt@{1, 2}\n\tq := bc.Pair@[string]{\"k\", \"v\"}\n\tfmt.Println(p.X+p.Y, q.K+q.V, a.Pts@[1].Y)\n",
                    pkgs={"a": "type Pt@ struct{ X, Y int }\n\nvar Pts@ = []Pt@{{1, 2}, {3, 4}}\n", "bc": "type Pair@[T any] struct{ K, V T }\n"}))
    out.append(Unit("struct tags and blank fields", "\tv := a.Tagged@{A: 1}\n\tfmt.Println(v.A, v.B)\n",
                    pkgs={"a": "type Tagged@ struct {\n\tA int `json:\"a\"`\n\t_ int\n\tB string `k:\"v\"`\n}\n"}))
    return out


def units_alias():
    out = []
    for tgt in ("local", "foreign", "genericinst", "foreigngeneric"):
        for embedded in (False, True):
            if tgt == "local":
                d, pk, T = "type base@ struct{ V int }\n\nfunc (b base@) Val() int { return b.V }\n\ntype Al@ = base@\n", {}, "base@"
            elif tgt == "foreign":
                d, pk, T = "type Al@ = a.Base@\n", {"a": "type Base@ struct{ V int }\n\nfunc (b Base@) Val() int { return b.V }\n"}, "a.Base@"
            elif tgt == "genericinst":
                d, pk, T = "type gbase@[T any] struct{ V T }\n\nfunc (b gbase@[T]) Val() T { return b.V }\n\ntype Al@ = gbase@[int]\n", {}, "gbase@[int]"
            else:
                d, pk, T = "type Al@ = bc.GBase@[int]\n", {"bc": "type GBase@[T any] struct{ V T }\n\nfunc (b GBase@[T]) Val() T { return b.V }\n"}, "bc.GBase@[int]"
            if embedded:
                d += "\ntype holder@ struct {\n\tAl@\n\tn int\n}\n"
                body = "\th := holder@{Al@: Al@{V: 4}, n: 1}\n\tfmt.Println(h.V, h.Val(), h.Al@.V, h.n)\n\tvar t %s = h.Al@\n\tfmt.Println(t.V)\n" % T
            else:
                body = "\tvar x Al@ = %s{V: 6}\n\tfmt.Println(x.V, x.Val())\n\tf := Al@.Val\n\tfmt.Println(f(x))\n" % T
            out.append(Unit("alias target=%s embedded=%s" % (tgt, embedded), body, decls=d, pkgs=pk))
    # alias declared in a dependency, of a type in its own dependency, embedded in main
    out.append(Unit("alias chain across three packages", "\th := struct {\n\t\ta.Re@\n\t}{a.Re@{W: 2}}\n\tfmt.Println(h.W, h.Twice())\n",
                    pkgs={"a": "type Re@ = bc.Orig@\n", "bc": "type Orig@ struct{ W int }\n\nfunc (o Orig@) Twice() int { return o.W * 2 }\n"}))
    return out


def units_generics():
    out = []
    for pkg in ("main", "a", "bc"):
        decl = ("type Num@ interface{ ~int | ~int64 | ~float64 }\n\nfunc Sum@[T Num@](xs ...T) T {\n\tvar s T\n\tfor _, x := range xs {\n\t\ts += x\n\t}\n\treturn s\n}\n\n"
                "type Stack@[T any] struct{ items []T }\n\nfunc (s *Stack@[T]) Push(v T) { s.items = append(s.items, v) }\n\n"
                "func (s *Stack@[T]) Pop() (T, bool) {\n\tvar zero T\n\tif len(s.items) == 0 {\n\t\treturn zero, false\n\t}\n\tv := s.items[len(s.items)-1]\n\ts.items = s.items[:len(s.items)-1]\n\treturn v, true\n}\n\n"
                "type myInt@ int\n\nfunc SumMy@() int { return int(Sum@(myInt@(1), myInt@(2))) }\n")
        body = ("\tfmt.Println(%s(1, 2, 3), %s(1.5, 2.5), %s())\n\tvar s %s[string]\n\ts.Push(\"a\")\n\ts.Push(\"b\")\n\tv, ok := s.Pop()\n\tfmt.Println(v, ok)\n"
                % (q(pkg, "Sum@"), q(pkg, "Sum@"), q(pkg, "SumMy@"), q(pkg, "Stack@")))
        out.append(Unit("generic func+type pkg=%s" % pkg, body, decls=decl if pkg == "main" else "", pkgs={} if pkg == "main" else {pkg: decl}))
    # constraint interface with an unexported method, implemented in another package through embedding
    out.append(Unit("constraint with unexported method", "\tfmt.Println(a.Use@(a.Impl@{N: 3}), a.Use@(wrap@{a.Impl@{N: 4}}))\n",
                    decls="type wrap@ struct{ a.Impl@ }\n",
                    pkgs={"a": "type Sealed@ interface {\n\tsealed() int\n\tPublic() int\n}\n\ntype Impl@ struct{ N int }\n\nfunc (i Impl@) sealed() int { return i.N }\n\nfunc (i Impl@) Public() int { return i.N * 10 }\n\n"
                               "func Use@[T Sealed@](v T) int { return v.sealed() + v.Public() }\n"}))
    out.append(Unit("anonymous struct from generic func", "\tr := bc.MkAnon@(5, \"s\")\n\tfmt.Println(r.First, r.Second)\n\tr2 := mk@(true)\n\tfmt.Println(r2.val)\n",
                    decls="func mk@[T any](v T) struct{ val T } { return struct{ val T }{v} }\n",
                    pkgs={"bc": "func MkAnon@[A, B any](x A, y B) struct {\n\tFirst  A\n\tSecond B\n} {\n\treturn struct {\n\t\tFirst  A\n\t\tSecond B\n\t}{x, y}\n}\n"}))
    out.append(Unit("generic method value and instantiation alias", "\ttype IS = bc.Box@[int]\n\tb := IS{V: 3}\n\tf := b.Get\n\tg := bc.Box@[string].Get\n\tfmt.Println(f(), g(bc.Box@[string]{V: \"x\"}), bc.Map@([]int{1, 2}, func(i int) string { return strconv.Itoa(i * 2) }))\n",
                    pkgs={"bc": "type Box@[T any] struct{ V T }\n\nfunc (b Box@[T]) Get() T { return b.V }\n\nfunc Map@[T, U any](xs []T, f func(T) U) []U {\n\tvar out []U\n\tfor _, x := range xs {\n\t\tout = append(out, f(x))\n\t}\n\treturn out\n}\n"}))
    out.append(Unit("generic type with embedded generic and recursion", "\tn := &a.Node@[int]{Val: 1, Next: &a.Node@[int]{Val: 2}}\n\tfmt.Println(n.Len(), n.Next.Val, a.Tree@[string]{Pair@: a.Pair@[string]{L: \"l\"}}.L)\n",
                    pkgs={"a": "type Node@[T any] struct {\n\tVal  T\n\tNext *Node@[T]\n}\n\nfunc (n *Node@[T]) Len() int {\n\tif n == nil {\n\t\treturn 0\n\t}\n\treturn 1 + n.Next.Len()\n}\n\ntype Pair@[T any] struct{ L, R T }\n\ntype Tree@[T any] struct {\n\tPair@[T]\n\tdepth int\n}\n"}))
    return out


def units_interfaces():
    out = []
    for implpkg, via in itertools.product(("main", "a"), ("direct", "embed")):
        ideclbc = "type Shape@ interface {\n\tArea() int\n\tsecret() string\n}\n\ntype BaseShape@ struct{ W, H int }\n\nfunc (b BaseShape@) Area() int { return b.W * b.H }\n\nfunc (b BaseShape@) secret() string { return \"s\" }\n\nfunc Describe@(s Shape@) string { return s.secret() + strconv.Itoa(s.Area()) }\n"
        if via == "direct":
            impl = "type Sq@ struct{ bc.BaseShape@ }\n"  # must embed to get unexported method from bc anyway
        else:
            impl = "type mid@ struct{ bc.BaseShape@ }\n\ntype Sq@ struct {\n\tmid@\n\tname string\n}\n"
        body = "\tvar s bc.Shape@ = %s\n\tfmt.Println(bc.Describe@(s), s.Area())\n" % (
            ("%s{bc.BaseShape@{2, 3}}" if via == "direct" else "%s{mid@: mid@{bc.BaseShape@{2, 3}}}").replace("mid@", q(implpkg, "mid@") if implpkg == "main" else "mid@") % q(implpkg, "Sq@"))
        if implpkg == "a" and via == "embed":
            impl += "\nfunc NewSq@() Sq@ { return Sq@{mid@: mid@{bc.BaseShape@{2, 3}}} }\n"
            body = "\tvar s bc.Shape@ = a.NewSq@()\n\tfmt.Println(bc.Describe@(s), s.Area())\n"
        out.append(Unit("iface unexported method impl=%s via=%s" % (implpkg, via), body, decls=impl if implpkg == "main" else "",
                        pkgs={"bc": ideclbc, **({} if implpkg == "main" else {"a": impl})}))
    out.append(Unit("interface embedding and type assertion", "\tvar r a.RW@ = &a.Buf@{}\n\tr.Write@(\"hi\")\n\tif w, ok := r.(a.Writer@); ok {\n\t\tw.Write@(\"!\")\n\t}\n\tfmt.Println(r.Read@())\n\t_, bad := any(r).(interface{ Nope() })\n\tfmt.Println(bad)\n",
                    pkgs={"a": "type Reader@ interface{ Read@() string }\n\ntype Writer@ interface{ Write@(string) }\n\ntype RW@ interface {\n\tReader@\n\tWriter@\n}\n\ntype Buf@ struct{ data []string }\n\nfunc (b *Buf@) Read@() string { return strings.Join(b.data, \",\") }\n\nfunc (b *Buf@) Write@(s string) { b.data = append(b.data, s) }\n"}))
    out.append(Unit("error types and errors.As", "\terr := a.Fail@(3)\n\tvar me *a.MyErr@\n\tfmt.Println(errors.As(err, &me), me.Code, err)\n\tfmt.Println(errors.Is(err, a.ErrBase@))\n",
                    pkgs={"a": "type MyErr@ struct{ Code int }\n\nfunc (e *MyErr@) Error() string { return \"code \" + strconv.Itoa(e.Code) }\n\nfunc (e *MyErr@) Unwrap() error { return ErrBase@ }\n\nvar ErrBase@ = errors.New(\"base\")\n\nfunc Fail@(c int) error { return &MyErr@{c} }\n"}))
    out.append(Unit("Stringer through fmt", "\tfmt.Println(a.Color@(1), a.Color@(7))\n\tfmt.Printf(\"%v %s %d\\n\", a.Color@(0), a.Color@(2), a.Color@(2))\n",
                    pkgs={"a": "type Color@ int\n\nfunc (c Color@) String() string {\n\tswitch c {\n\tcase 0:\n\t\treturn \"red\"\n\tcase 1:\n\t\treturn \"green\"\n\t}\n\treturn \"c\" + strconv.Itoa(int(c))\n}\n"}))
    return out


def units_control():
    out = []
    out.append(Unit("closures capturing renamed objects", "\tcounter@ := 0\n\tinc := func() int { counter@++; return counter@ }\n\tinc()\n\tfs := a.Adders@(3)\n\tfmt.Println(inc(), fs[0](1), fs[2](1), a.Captured@())\n",
                    pkgs={"a": "var pkgState@ = 10\n\nfunc Adders@(n int) []func(int) int {\n\tvar out []func(int) int\n\tfor i := 0; i < n; i++ {\n\t\tout = append(out, func(x int) int { return x + i + pkgState@ })\n\t}\n\treturn out\n}\n\nfunc Captured@() int {\n\tlocal := pkgState@\n\tf := func() { local *= 2; pkgState@++ }\n\tf()\n\treturn local + pkgState@\n}\n"}))
    out.append(Unit("type switch with symbolic variable", "\tfor _, v := range []any{1, \"s\", a.TS@{N: 2}, &a.TS@{N: 3}, nil, []int{1}, a.TSI@(a.TS@{N: 4})} {\n\t\tswitch x := v.(type) {\n\t\tcase int, string:\n\t\t\tfmt.Println(\"basic\", x)\n\t\tcase a.TS@:\n\t\t\tfmt.Println(\"val\", x.N, x.Get())\n\t\tcase *a.TS@:\n\t\t\tfmt.Println(\"ptr\", x.N)\n\t\tcase nil:\n\t\t\tfmt.Println(\"nil\")\n\t\tdefault:\n\t\t\tfmt.Println(\"other\")\n\t\t}\n\t}\n",
                    pkgs={"a": "type TS@ struct{ N int }\n\nfunc (t TS@) Get() int { return t.N }\n\ntype TSI@ interface{ Get() int }\n"}))
    out.append(Unit("labels goto break continue", "\tn := 0\nouter@:\n\tfor i := 0; i < 4; i++ {\n\tinner@:\n\t\tfor j := 0; j < 4; j++ {\n\t\t\tswitch {\n\t\t\tcase j == 2:\n\t\t\t\tcontinue outer@\n\t\t\tcase i == 3:\n\t\t\t\tbreak outer@\n\t\t\tcase j == 1 && i == 1:\n\t\t\t\tbreak inner@\n\t\t\t}\n\t\t\tn += i*10 + j\n\t\t}\n\t}\n\tk := 0\nagain@:\n\tk++\n\tif k < 3 {\n\t\tgoto again@\n\t}\n\tfmt.Println(n, k)\n"))
    for recv in ("value", "pointer"):
        star = "*" if recv == "pointer" else ""
        out.append(Unit("method values and expressions recv=%s" % recv,
                        "\tv := %sa.MV@{N: 2}\n\tf := v.Mul\n\tg := (%sa.MV@).Mul\n\th := a.MV@.Plain\n\tfmt.Println(f(3), g(v, 4), h(a.MV@{N: 5}), a.Apply@(v.Mul, 6))\n" % ("&" if recv == "pointer" else "", star),
                        pkgs={"a": "type MV@ struct{ N int }\n\nfunc (m %sMV@) Mul(k int) int { return m.N * k }\n\nfunc (m MV@) Plain() int { return m.N }\n\nfunc Apply@(f func(int) int, x int) int { return f(x) }\n" % star}))
    out.append(Unit("defer recover panic values", "\tfmt.Println(a.Safe@(func() { panic(a.PV@{3}) }), a.Safe@(func() { var m map[string]int; m[\"x\"] = 1 }), a.Safe@(func() {}))\n",
                    pkgs={"a": "type PV@ struct{ C int }\n\nfunc Safe@(f func()) (res string) {\n\tdefer func() {\n\t\tswitch r := recover().(type) {\n\t\tcase nil:\n\t\t\tres = \"ok\"\n\t\tcase PV@:\n\t\t\tres = \"pv\" + strconv.Itoa(r.C)\n\t\tcase error:\n\t\t\tres = \"err:\" + r.Error()\n\t\tdefault:\n\t\t\tres = \"other\"\n\t\t}\n\t}()\n\tf()\n\treturn \"unreachable\"\n}\n"}))
    out.append(Unit("goroutines channels select", "\tch := make(chan a.Msg@, 2)\n\tvar wg sync.WaitGroup\n\tfor i := 0; i < 2; i++ {\n\t\twg.Add(1)\n\t\tgo func(id int) {\n\t\t\tdefer wg.Done()\n\t\t\tch <- a.Msg@{ID: id}\n\t\t}(i)\n\t}\n\twg.Wait()\n\tclose(ch)\n\tsum := 0\n\tfor m := range ch {\n\t\tsum += m.ID + 1\n\t}\n\tselect {\n\tcase _, ok := <-ch:\n\t\tfmt.Println(sum, ok)\n\tdefault:\n\t\tfmt.Println(\"default\")\n\t}\n",
                    pkgs={"a": "type Msg@ struct{ ID int }\n"}))
    out.append(Unit("constants iota typed consts arrays", "\tvar arr [a.Size@]int\n\tarr[a.Second@] = 5\n\tswitch a.Kind@(1) {\n\tcase a.KA@:\n\t\tfmt.Println(\"A\")\n\tcase a.KB@:\n\t\tfmt.Println(\"B\", len(arr), arr[1], a.Name@, len(a.Name@))\n\t}\n",
                    pkgs={"a": "type Kind@ int\n\nconst (\n\tKA@ Kind@ = iota\n\tKB@\n)\n\nconst (\n\tSize@   = 4\n\tSecond@ = 1\n\tName@   = \"const name value\"\n)\n"}))
    out.append(Unit("variadic functions and func types", "\tvar f a.Fn@ = a.Join@\n\tfmt.Println(f(\"-\", \"a\", \"b\"), a.Join@(\"+\"), a.Call@(f))\n",
                    pkgs={"a": "type Fn@ func(sep string, parts ...string) string\n\nfunc Join@(sep string, parts ...string) string { return strings.Join(parts, sep) }\n\nfunc Call@(f Fn@) string { return f(\"/\", \"x\", \"y\", \"z\") }\n"}))
    out.append(Unit("maps with struct keys and values", "\tm := map[a.Key@]a.Val@{{1, \"a\"}: {[]int{1}}, {2, \"b\"}: {[]int{2, 3}}}\n\tfmt.Println(len(m[a.Key@{2, \"b\"}].L), m[a.Key@{9, \"z\"}].L == nil)\n\tkeys := make([]int, 0)\n\tfor k := range m {\n\t\tkeys = append(keys, k.N)\n\t}\n\tsort.Ints(keys)\n\tfmt.Println(keys)\n",
                    pkgs={"a": "type Key@ struct {\n\tN int\n\tS string\n}\n\ntype Val@ struct{ L []int }\n"}))
    out.append(Unit("runtime args drive behaviour", "\tn := 0\n\tfor _, s := range os.Args[1:] {\n\t\tn += a.Weigh@(s)\n\t}\n\tfmt.Println(n)\n",
                    pkgs={"a": "func Weigh@(s string) int {\n\tw := 0\n\tfor _, r := range s {\n\t\tw += int(r)\n\t}\n\treturn w * len(s)\n}\n"}))
    return out


def units_imports():
    out = []
    out.append(Unit("named and dotted-path imports", "\tfmt.Println(bc.Dot@(), differs.Named@(), a.ViaInternal@())\n",
                    pkgs={"bc": "func Dot@() string { return \"dot\" }\n", "nm": "func Named@() string { return \"named:\" + bc.Dot@() }\n",
                          "a": "func ViaInternal@() string { return x.Hidden@() + bc.Dot@() }\n", "x": "func Hidden@() string { return \"internal\" }\n"}))
    out.append(Unit("cross-package struct conversion", "\tp := a.CA@{X: 1, y: 0}\n\t_ = p\n", pkgs={}))
    out[-1] = Unit("cross-package struct conversion",
                   "\tva := a.CA@{X: 1, Y: \"y\"}\n\tvb := bc.CB@(va)\n\tvc := local@(vb)\n\tvar anon struct {\n\t\tX int\n\t\tY string\n\t} = va\n\tfmt.Println(vb.X, vc.Y, anon.X, bc.ShowCB@(bc.CB@(anon)))\n",
                   decls="type local@ struct {\n\tX int\n\tY string\n}\n",
                   pkgs={"a": "type CA@ struct {\n\tX int\n\tY string\n}\n", "bc": "type CB@ struct {\n\tX int\n\tY string `tag:\"ignored\"`\n}\n\nfunc ShowCB@(c CB@) string { return c.Y + strconv.Itoa(c.X) }\n"})
    out.append(Unit("init order inside a package", "\tfmt.Println(a.InitLog@())\n",
                    pkgs={"a": "var log@ []string\n\nvar va@ = rec@(\"va\", vb@)\n\nvar vb@ = rec@(\"vb\", 1)\n\nfunc rec@(n string, dep int) int {\n\tlog@ = append(log@, n)\n\treturn dep + 1\n}\n\nfunc init() { log@ = append(log@, \"init1\") }\n\nfunc init() { log@ = append(log@, \"init2:\"+strconv.Itoa(va@)) }\n\nfunc InitLog@() string { return strings.Join(log@, \",\") }\n"}))
    out.append(Unit("package-level vars of many kinds", "\tfmt.Println(a.Exported@, a.GetUnexp@(), *a.Ptr@, a.Fun@(2), a.Arr@[1], a.Mp@[\"k\"], a.St@.F)\n\ta.Exported@ = 5\n\tfmt.Println(a.ReadExported@())\n",
                    pkgs={"a": "var (\n\tExported@ = 3\n\tunexp@    = \"u\"\n\tnum@      = 7\n\tPtr@      = &num@\n\tFun@      = func(i int) int { return i * num@ }\n\tArr@      = [2]string{\"x\", \"y\"}\n\tMp@       = map[string]int{\"k\": 1}\n\tSt@       = struct{ F int }{9}\n)\n\nfunc GetUnexp@() string { return unexp@ }\n\nfunc ReadExported@() int { return Exported@ }\n"}))
    return out


ASM_GO = ("func AsmAdd@(x, y int64) int64\n\nfunc AsmField@(s *AsmS@) int64\n\nfunc AsmCallsGo@(x int64) int64\n\n"
          "type AsmS@ struct {\n\tA int32\n\tB int64\n}\n\nconst asmConst@ = 42\n\nfunc goHelper@(x int64) int64 { return x*3 + 1 }\n\nvar asmVar@ int64 = 5\n\nfunc AsmReadVar@() int64\n")
ASM_S = ('#include "textflag.h"\n#include "go_asm.h"\n\n'
         "TEXT ·AsmAdd@(SB),NOSPLIT,$0-24\n\tMOVQ x+0(FP), AX\n\tMOVQ y+8(FP), BX\n\tADDQ BX, AX\n\tADDQ $const_asmConst@, AX\n\tMOVQ AX, ret+16(FP)\n\tRET\n\n"
         "TEXT ·AsmField@(SB),NOSPLIT,$0-16\n\tMOVQ s+0(FP), AX\n\tMOVQ AsmS@_B(AX), AX\n\tMOVQ AX, ret+8(FP)\n\tRET\n\n"
         "TEXT ·AsmCallsGo@(SB),$16-16\n\tMOVQ x+0(FP), AX\n\tMOVQ AX, 0(SP)\n\tCALL ·goHelper@(SB)\n\tMOVQ 8(SP), AX\n\tMOVQ AX, ret+8(FP)\n\tRET\n\n"
         "TEXT ·AsmReadVar@(SB),NOSPLIT,$0-8\n\tMOVQ ·asmVar@(SB), AX\n\tMOVQ AX, ret+0(FP)\n\tRET\n")


def units_asm():
    out = []
    for pkg in ("a", "main"):
        d = PKGS[pkg][2] if pkg != "main" else "."
        body = "\ts := %s{A: 1, B: 77}\n\tfmt.Println(%s(1, 2), %s(&s), %s(5), %s())\n" % (q(pkg, "AsmS@"), q(pkg, "AsmAdd@"), q(pkg, "AsmField@"), q(pkg, "AsmCallsGo@"), q(pkg, "AsmReadVar@"))
        u = Unit("assembly stubs pkg=%s" % pkg, body, decls=ASM_GO if pkg == "main" else "", pkgs={} if pkg == "main" else {pkg: ASM_GO},
                 files={"%s/asm@_amd64.s" % d: ASM_S}, tags={"asm"})
        out.append(u)
    return out


def units_asm_qualified():
    """assembly that refers to Go names of its own package through the full import path (underscore and digit in the path)."""
    ip = PKGS["us"][0].replace(".", "\u00b7").replace("/", "\u2215")
    go = "func QAdd@(x, y int64) int64\n\nfunc QVia@(x, y int64) int64\n\nfunc qHelper@(x int64) int64 { return x * 7 }\n\nfunc QCalls@(x int64) int64\n\nvar qVar@ int64 = 9\n\nfunc QVar@() int64\n"
    asm = ('#include "textflag.h"\n\nTEXT \u00b7QAdd@(SB),NOSPLIT,$0-24\n\tMOVQ x+0(FP), AX\n\tADDQ y+8(FP), AX\n\tMOVQ AX, ret+16(FP)\n\tRET\n\n'
           "TEXT \u00b7QVia@(SB),NOSPLIT,$0-24\n\tJMP %s\u00b7QAdd@(SB)\n\n"
           "TEXT \u00b7QCalls@(SB),$16-16\n\tMOVQ x+0(FP), AX\n\tMOVQ AX, 0(SP)\n\tCALL %s\u00b7qHelper@(SB)\n\tMOVQ 8(SP), AX\n\tMOVQ AX, ret+8(FP)\n\tRET\n\n"
           "TEXT \u00b7QVar@(SB),NOSPLIT,$0-8\n\tMOVQ %s\u00b7qVar@(SB), AX\n\tMOVQ AX, ret+0(FP)\n\tRET\n" % (ip, ip, ip))
    return [Unit("assembly with import-path qualified names (underscore in path)", "\tfmt.Println(under_score2.QAdd@(1, 2), under_score2.QVia@(3, 4), under_score2.QCalls@(5), under_score2.QVar@())\n",
                 pkgs={"us": go}, files={"lib/under_score2/qasm@_amd64.s": asm}, tags={"asm"})]


def units_linkname():
    out = []
    # bodyless declarations need a .s file in the package
    empty_s = {"zz_empty@.s": "// empty, allows bodyless function declarations\n"}
    out.append(Unit("linkname pull func from obfuscated dep",
                    "\tfmt.Println(lnPull@(4))\n", decls="import _ \"unsafe\"\n\n//go:linkname lnPull@ %s/lib/a.lnImpl@\nfunc lnPull@(int) int\n" % MOD,
                    pkgs={"a": "func lnImpl@(x int) int { return x + 100 }\n\nvar _ = lnImpl@\n"}, files=empty_s, tags={"linkname"}))
    out.append(Unit("linkname pull method of obfuscated type",
                    "\tt := &a.LnT@{N: 2}\n\tfmt.Println(lnMeth@(t, 5), lnVal@(*t))\n",
                    decls="import _ \"unsafe\"\n\n//go:linkname lnMeth@ %s/lib/a.(*LnT@).scale\nfunc lnMeth@(*a.LnT@, int) int\n\n//go:linkname lnVal@ %s/lib/a.LnT@.plain\nfunc lnVal@(a.LnT@) int\n" % (MOD, MOD),
                    pkgs={"a": "type LnT@ struct{ N int }\n\nfunc (t *LnT@) scale(k int) int { return t.N * k }\n\nfunc (t LnT@) plain() int { return t.N + 1 }\n\nvar _ = (*LnT@).scale\nvar _ = LnT@.plain\n"},
                    files=empty_s, tags={"linkname"}))
    out.append(Unit("linkname to runtime (not obfuscated)",
                    "\tfmt.Println(lnNano@() > 0)\n", decls="import _ \"unsafe\"\n\n//go:linkname lnNano@ runtime.nanotime\nfunc lnNano@() int64\n",
                    files=empty_s, tags={"linkname"}))
    out.append(Unit("linkname push var and one-argument form",
                    "\tfmt.Println(a.ReadPushed@(), lnLocal@())\n",
                    decls="import _ \"unsafe\"\n\n//go:linkname lnLocal@\nfunc lnLocal@() int { return 12 }\n\n//go:linkname lnPushedVar@ %s/lib/a.pushedVar@\nvar lnPushedVar@ = 31\n" % MOD,
                    pkgs={"a": "import _ \"unsafe\"\n\n//go:linkname pushedVar@\nvar pushedVar@ int\n\nfunc ReadPushed@() int { return pushedVar@ }\n"}, tags={"linkname"}))
    return out


def units_more():
    out = []
    out.append(Unit("dot import", "\tfmt.Println(DotFn@(2), DotVar@, DotT@{N: 3}.Twice())\n",
                    decls="import . \"%s/lib/b.c\"\n" % MOD,
                    pkgs={"bc": "var DotVar@ = 7\n\ntype DotT@ struct{ N int }\n\nfunc (d DotT@) Twice() int { return d.N * 2 }\n\nfunc DotFn@(n int) int { return n + DotVar@ }\n"}))
    out.append(Unit("local names shadowing package names", "\ta := a.Shadow@{V: 1}\n\tbc := a.V + 1\n\tstrings := []string{\"x\"}\n\tfmt.Println(a.V, bc, len(strings), shadowUse@())\n",
                    decls="func shadowUse@() int {\n\ta := 5\n\treturn a\n}\n",
                    pkgs={"a": "type Shadow@ struct{ V int }\n"}))
    out.append(Unit("unicode identifiers", "\tv := a.Ünï@{Größe: 2}\n\tfmt.Println(v.Größe, v.Ärger(), a.Ωmega@, a.Δelta@(3), a.Klein@())\n",
                    pkgs={"a": "type Ünï@ struct{ Größe int }\n\nfunc (u Ünï@) Ärger() int { return u.Größe * 3 }\n\nvar Ωmega@ = 9\n\nfunc Δelta@(n int) int { return n - ωklein@ }\n\nvar ωklein@ = 1\n\nfunc Klein@() int { return ωklein@ }\n"}))
    out.append(Unit("generic alias and alias to instantiation", "\tvar x a.GA@[int] = bc.GS@[int]{V: 4}\n\tvar y a.GI@ = bc.GS@[string]{V: \"s\"}\n\tfmt.Println(x.V, y.V, x.Get(), y.Get())\n",
                    pkgs={"a": "type GA@[T any] = bc.GS@[T]\n\ntype GI@ = bc.GS@[string]\n", "bc": "type GS@[T any] struct{ V T }\n\nfunc (g GS@[T]) Get() T { return g.V }\n"}))
    out.append(Unit("range over func iterators", "\tsum := 0\n\tfor v := range a.Count@(4) {\n\t\tsum += v\n\t}\n\tfor k, v := range a.Pairs@() {\n\t\tsum += len(k) + v\n\t}\n\tfmt.Println(sum)\n",
                    pkgs={"a": "func Count@(n int) func(yield func(int) bool) {\n\treturn func(yield func(int) bool) {\n\t\tfor i := 0; i < n; i++ {\n\t\t\tif !yield(i) {\n\t\t\t\treturn\n\t\t\t}\n\t\t}\n\t}\n}\n\n"
                               "func Pairs@() func(yield func(string, int) bool) {\n\treturn func(yield func(string, int) bool) {\n\t\t_ = yield(\"k1\", 1) && yield(\"key2\", 2)\n\t}\n}\n"}))
    out.append(Unit("embedded interface in struct", "\tw := a.Wrap@{Speaker@: a.Dog@{}, Tag: \"t\"}\n\tfmt.Println(w.Speak(), w.Tag, a.Loud@(w))\n",
                    pkgs={"a": "type Speaker@ interface{ Speak() string }\n\ntype Dog@ struct{}\n\nfunc (Dog@) Speak() string { return \"woof\" }\n\ntype Wrap@ struct {\n\tSpeaker@\n\tTag string\n}\n\nfunc Loud@(s Speaker@) string { return s.Speak() + \"!\" }\n"}))
    out.append(Unit("embed directive", "\tfmt.Println(len(embedStr@), string(embedBytes@[:3]), func() int { b, _ := embedFS@.ReadFile(\"embeddata@.txt\"); return len(b) }())\n",
                    decls="import \"embed\"\n\n//go:embed embeddata@.txt\nvar embedStr@ string\n\n//go:embed embeddata@.txt\nvar embedBytes@ []byte\n\n//go:embed embeddata@.txt\nvar embedFS@ embed.FS\n",
                    files={"embeddata@.txt": "embedded file contents @\n"}))
    out.append(Unit("mutually recursive types across packages", "\tn := &a.Tree@{Val: 1, Kids: []*a.Tree@{{Val: 2}, {Val: 3, Meta: &bc.Meta@{Note: \"m\"}}}}\n\tfmt.Println(n.Sum(), n.Kids[1].Meta.Note)\n",
                    pkgs={"a": "type Tree@ struct {\n\tVal  int\n\tKids []*Tree@\n\tMeta *bc.Meta@\n}\n\nfunc (t *Tree@) Sum() int {\n\ts := t.Val\n\tfor _, k := range t.Kids {\n\t\ts += k.Sum()\n\t}\n\treturn s\n}\n",
                          "bc": "type Meta@ struct {\n\tNote string\n\tNext *Meta@\n}\n"}))
    out.append(Unit("same names in several packages and builtins", "\tfmt.Println(a.Helper@(1), bc.Helper@(1), differs.Helper@(1), min(a.Helper@(2), 3), max(1, bc.Helper@(0)))\n",
                    pkgs={"a": "func Helper@(n int) int { return n + 1 }\n", "bc": "func Helper@(n int) int { return n + 2 }\n", "nm": "func Helper@(n int) int { return n + 3 }\n"}))
    return out


def all_units():
    return (units_structs() + units_alias() + units_generics() + units_interfaces() + units_control() + units_imports() + units_asm() + units_asm_qualified() + units_linkname() + units_more())
