"""Common plumbing for the /verif checks (see DESIGN.md section 2 and 3.F).

Everything here is deterministic: nothing is drawn at random; VERIF_SEED only rotates the order
in which shards are explored when a deadline is in force.
"""
import atexit, hashlib, json, os, shutil, signal, subprocess, sys, time, fcntl, itertools, re
from concurrent.futures import ThreadPoolExecutor

VERIF = os.path.dirname(os.path.dirname(os.path.abspath(__file__)))
REPO = os.environ.get("REPO", "/repo")
GOROOT_TC = "/root/go/pkg/mod/golang.org/toolchain@v0.0.1-go1.26.2.linux-amd64"
REAL_MODCACHE = "/root/go/pkg/mod"
CACHE = os.path.join(VERIF, ".cache")
SCRATCH_ROOT = os.environ.get("VERIF_SCRATCH", "/tmp/verif-scratch")
SEED = int(os.environ.get("VERIF_SEED", "0") or 0)
NCPU = os.cpu_count() or 4

_start = time.time()
_scratch = None


def log(*a):
    print("[verif %6.1fs]" % (time.time() - _start), *a, file=sys.stderr, flush=True)


def scratch(name="check"):
    """Per-process scratch directory, removed at exit."""
    global _scratch
    if _scratch is None:
        _scratch = os.path.join(SCRATCH_ROOT, "%s-%d" % (name, os.getpid()))
        shutil.rmtree(_scratch, ignore_errors=True)
        os.makedirs(_scratch)
        atexit.register(_cleanup)
        for s in (signal.SIGTERM, signal.SIGINT):
            signal.signal(s, lambda *_: sys.exit(3))
    return _scratch


def _cleanup():
    if _scratch and os.environ.get("VERIF_KEEP") != "1":
        subprocess.run(["chmod", "-R", "u+w", _scratch], stderr=subprocess.DEVNULL)
        shutil.rmtree(_scratch, ignore_errors=True)


def mkdir(*parts):
    p = os.path.join(*parts)
    os.makedirs(p, exist_ok=True)
    return p


def write(path, content, mode="w"):
    os.makedirs(os.path.dirname(path), exist_ok=True)
    with open(path, mode) as f:
        f.write(content)
    return path


def read(path, mode="r"):
    with open(path, mode) as f:
        return f.read()


def sha256_file(path):
    h = hashlib.sha256()
    with open(path, "rb") as f:
        for b in iter(lambda: f.read(1 << 20), b""):
            h.update(b)
    return h.hexdigest()


def sha256(b):
    if isinstance(b, str):
        b = b.encode()
    return hashlib.sha256(b).hexdigest()


class lock:
    def __init__(self, path):
        self.path = path

    def __enter__(self):
        os.makedirs(os.path.dirname(self.path), exist_ok=True)
        self.f = open(self.path, "w")
        fcntl.flock(self.f, fcntl.LOCK_EX)

    def __exit__(self, *a):
        fcntl.flock(self.f, fcntl.LOCK_UN)
        self.f.close()


# ---------------------------------------------------------------- environment

def base_env(gocache=None, garblecache=None, tmpdir=None, extra=None, modcache=None):
    e = {}
    for k in ("HOME", "LANG", "USER", "TERM"):
        if k in os.environ:
            e[k] = os.environ[k]
    e["PATH"] = GOROOT_TC + "/bin:/usr/local/sbin:/usr/local/bin:/usr/sbin:/usr/bin:/sbin:/bin"
    e["GOTOOLCHAIN"] = "local"
    e["GOPROXY"] = "off"
    e["GOFLAGS"] = "-mod=mod"
    e["GONOSUMDB"] = "*"
    e["GONOSUMCHECK"] = "1"
    e["GOMODCACHE"] = modcache or mkdir(CACHE, "modcache-empty")
    e["GOCACHE"] = gocache or shared_gocache()
    e["GARBLE_CACHE"] = garblecache or shared_garblecache()
    e["CGO_ENABLED"] = "0"
    if tmpdir:
        os.makedirs(tmpdir, exist_ok=True)
        e["TMPDIR"] = tmpdir
    if extra:
        for k, v in extra.items():
            if v is None:
                e.pop(k, None)
            else:
                e[k] = v
    return e


def run(argv, cwd=None, env=None, timeout=900, input=None, check=False):
    """Run a command; returns CompletedProcess with bytes stdout/stderr. Never raises on exit code
    unless check. A timeout is reported as returncode -999."""
    try:
        p = subprocess.run(argv, cwd=cwd, env=env, input=input, stdout=subprocess.PIPE,
                           stderr=subprocess.PIPE, timeout=timeout)
    except subprocess.TimeoutExpired as ex:
        p = subprocess.CompletedProcess(argv, -999, ex.stdout or b"", (ex.stderr or b"") + b"\n[verif] TIMEOUT")
    if check and p.returncode != 0:
        raise RuntimeError("command failed (%d): %s\ncwd=%s\n%s\n%s" % (
            p.returncode, " ".join(argv), cwd, p.stdout.decode(errors="replace")[-4000:],
            p.stderr.decode(errors="replace")[-4000:]))
    return p


# ---------------------------------------------------------------- garble binary

def tree_hash(repo=None, extra=b""):
    """Hash of the Go sources (and linker patches) of the working tree that make up the garble binary."""
    repo = repo or REPO
    h = hashlib.sha256()
    h.update(repo.encode())
    files = []
    for root, dirs, fs in os.walk(repo):
        rel = os.path.relpath(root, repo)
        dirs[:] = sorted(d for d in dirs if d not in (".git", "testdata", "docs", "scripts", ".github"))
        for f in sorted(fs):
            if f.endswith(("_test.go",)):
                continue
            if f.endswith((".go", ".patch", ".mod", ".sum", ".s", ".h")):
                files.append(os.path.join(root, f))
    for f in files:
        h.update(os.path.relpath(f, repo).encode() + b"\0")
        h.update(read(f, "rb"))
        h.update(b"\0")
    h.update(extra)
    return h.hexdigest()[:16]


def build_env():
    e = dict(os.environ)
    e["PATH"] = GOROOT_TC + "/bin:" + e.get("PATH", "")
    e["GOTOOLCHAIN"] = "local"
    e["GOPROXY"] = "off"
    e["GOFLAGS"] = "-mod=mod"
    e["GOCACHE"] = mkdir(CACHE, "gobuild")
    e["GOMODCACHE"] = REAL_MODCACHE
    e["CGO_ENABLED"] = "0"
    e.pop("GOSUMDB", None)
    return e


def build_garble(repo=None, tags=None, overlay=None, name="garble", pkg="."):
    """Build the garble binary from the current working tree of `repo` (cached by tree hash).
    overlay: dict path->replacement path (go build -overlay)."""
    repo = repo or REPO
    extra = (tags or "").encode() + b"|" + pkg.encode() + b"|novcs"
    if overlay:
        for k in sorted(overlay):
            extra += k.encode() + b"="
            extra += read(overlay[k], "rb") if overlay[k] else b"<deleted>"
    th = tree_hash(repo, extra)
    out = os.path.join(CACHE, "garble", th, name)
    with lock(os.path.join(CACHE, "garble", th + ".lock")):
        if os.path.exists(out):
            try: os.utime(os.path.dirname(out))
            except OSError: pass
            return out
        os.makedirs(os.path.dirname(out), exist_ok=True)
        # -buildvcs=false: the binary (and with it every action ID of the builds it drives) is a function of the tree content only
        argv = ["go", "build", "-buildvcs=false", "-o", out + ".tmp"]
        if tags:
            argv += ["-tags", tags]
        if overlay:
            ov = os.path.join(os.path.dirname(out), "overlay.json")
            write(ov, json.dumps({"Replace": overlay}))
            argv += ["-overlay", ov]
        argv.append(pkg)
        p = run(argv, cwd=repo, env=build_env(), timeout=900)
        if p.returncode != 0:
            sys.stderr.write(p.stderr.decode(errors="replace"))
            log("FATAL: cannot build garble from", repo)
            sys.exit(2)
        os.rename(out + ".tmp", out)
        _prune_garble_bins(keep=th)
    return out


def _prune_garble_bins(keep):
    d = os.path.join(CACHE, "garble")
    ents = [e for e in os.listdir(d) if os.path.isdir(os.path.join(d, e)) and e != keep]
    ents.sort(key=lambda e: os.path.getmtime(os.path.join(d, e)))
    # a binary may be in use by a concurrently running check: only drop entries unused for a long time
    now = time.time()
    for e in ents[:-12]:
        if now - os.path.getmtime(os.path.join(d, e)) > 12 * 3600:
            shutil.rmtree(os.path.join(d, e), ignore_errors=True)


# ---------------------------------------------------------------- caches

def shared_gocache():
    d = os.path.join(CACHE, "shared", "gocache")
    if not os.path.isdir(d):
        with lock(os.path.join(CACHE, "shared.lock")):
            if not os.path.isdir(d):
                base = os.path.join(CACHE, "gocache-base")
                if os.path.isdir(base):
                    os.makedirs(os.path.dirname(d), exist_ok=True)
                    subprocess.run(["cp", "-a", base, d + ".tmp"], check=True)
                    os.rename(d + ".tmp", d)
                else:
                    os.makedirs(d)
    return d


def shared_garblecache():
    return mkdir(CACHE, "shared", "garblecache")


def clone_dir(src, dst):
    """Copy a cache directory (real copy, no hard links: cache index files are rewritten in place)."""
    if os.path.exists(dst):
        shutil.rmtree(dst)
    os.makedirs(os.path.dirname(dst), exist_ok=True)
    subprocess.run(["cp", "-a", src, dst], check=True)
    return dst


def prune_shared(limit_gb=25):
    d = os.path.join(CACHE, "shared", "gocache")
    if not os.path.isdir(d):
        return
    out = subprocess.run(["du", "-s", "-BG", d], stdout=subprocess.PIPE).stdout.decode().split()[0]
    if int(out.rstrip("G")) > limit_gb:
        log("pruning shared gocache (", out, ")")
        shutil.rmtree(d, ignore_errors=True)
        shutil.rmtree(os.path.join(CACHE, "shared", "garblecache"), ignore_errors=True)


# ---------------------------------------------------------------- evidence / findings

class Result:
    """Collects violations and coverage for one check run and writes the evidence file."""

    def __init__(self, prop, tier, level):
        self.prop, self.tier, self.level = prop, tier, level
        self.t0 = time.time()
        self.violations = []      # (signature, what, replay)
        self.known_hits = []
        self.cov = {}
        self.assumptions = []
        kf = os.path.join(VERIF, "known_findings.json")
        self.known = {}
        if os.path.exists(kf):
            for f in json.load(open(kf)).get("findings", []):
                if f.get("property") == prop and f.get("status") == "known":
                    self.known[f["signature"]] = f

    def violation(self, signature, what, replay_files=None):
        """signature: stable identifier of the failing input class. replay_files: dict name->content."""
        if signature in self.known:
            if signature not in [k[0] for k in self.known_hits]:
                self.known_hits.append((signature, what))
            return False
        rd = os.path.join(VERIF, "replays", self.prop, re.sub(r"[^A-Za-z0-9_.-]+", "_", signature)[:80])
        if signature not in [v[0] for v in self.violations]:
            shutil.rmtree(rd, ignore_errors=True)
            os.makedirs(rd, exist_ok=True)
            write(os.path.join(rd, "WHAT.txt"), "property=%s\nsignature=%s\n%s\n" % (self.prop, signature, what))
            for k, v in (replay_files or {}).items():
                write(os.path.join(rd, k), v, "wb" if isinstance(v, bytes) else "w")
            self.violations.append((signature, what, rd))
        return True

    def finish(self, coverage, assumptions=None, exhaustive=None):
        cov = dict(coverage)
        if exhaustive is not None:
            cov["exhaustive"] = exhaustive
        cov["known_findings_hit"] = [k[0] for k in self.known_hits]
        ev = {
            "property_id": self.prop, "tier": self.tier, "seed": SEED, "level": self.level,
            "coverage": cov, "assumptions": assumptions or self.assumptions,
            "wall_s": round(time.time() - self.t0, 2), "violations": len(self.violations),
        }
        # evidence/ describes runs against /repo itself; a run against another tree ($REPO: seeded defects, old commits) or a
        # partial debugging run must not overwrite it
        partial = any(os.environ.get(v) for v in ("VERIF_C18_ONLY", "VERIF_C17_MODEL_ONLY"))
        edir = os.path.join(VERIF, "evidence") if os.path.realpath(REPO) == "/repo" and not partial else os.path.join(CACHE, "evidence-other-trees")
        os.makedirs(edir, exist_ok=True)
        write(os.path.join(edir, self.prop + ".json"), json.dumps(ev, indent=1, default=str) + "\n")
        for sig, what in self.known_hits:
            print("KNOWN-FINDING: property=%s %s :: %s" % (self.prop, sig, what.splitlines()[0][:300]))
        for sig, what, rd in self.violations:
            print("VIOLATION property=%s replay=%s" % (self.prop, rd))
            print("  signature=%s :: %s" % (sig, what[:1500]))
        sys.stdout.flush()
        log("%s %s done: %d violation(s), %d known finding(s), %.1fs" % (
            self.prop, self.tier, len(self.violations), len(self.known_hits), time.time() - self.t0))
        sys.exit(1 if self.violations else 0)


def tier_arg():
    t = sys.argv[1] if len(sys.argv) > 1 else os.environ.get("VERIF_TIER", "quick")
    if t not in ("quick", "thorough"):
        log("usage: check <quick|thorough>")
        sys.exit(2)
    return t


def pmap(fn, items, workers=None):
    items = list(items)
    if not items:
        return []
    with ThreadPoolExecutor(max_workers=workers or NCPU) as ex:
        return list(ex.map(fn, items))


class Deadline:
    def __init__(self, seconds):
        self.end = time.time() + seconds
        self.hit = False

    def expired(self):
        if time.time() > self.end:
            self.hit = True
        return self.hit


# ---------------------------------------------------------------- garble runner

class Garble:
    """Runs the garble binary built from $REPO on generated modules."""

    def __init__(self, binpath=None, gocache=None, garblecache=None, name="check"):
        self.bin = binpath or build_garble()
        self.gocache = gocache
        self.garblecache = garblecache
        self.root = scratch(name)
        self._n = itertools.count()

    def env(self, extra=None, tmpdir=None):
        return base_env(self.gocache, self.garblecache,
                        tmpdir or os.path.join(self.root, "tmp"), extra)

    def garble(self, gflags, cmd, args, cwd, extra_env=None, timeout=900, tmpdir=None, input=None):
        argv = [self.bin] + list(gflags) + [cmd] + list(args)
        return run(argv, cwd=cwd, env=self.env(extra_env, tmpdir), timeout=timeout, input=input)

    def go(self, args, cwd, extra_env=None, timeout=900, tmpdir=None):
        return run(["go"] + list(args), cwd=cwd, env=self.env(extra_env, tmpdir), timeout=timeout)

    def newdir(self, prefix="m"):
        return mkdir(self.root, "%s%d" % (prefix, next(self._n)))


def write_module(dirpath, files, modpath="example.com/m", gover="1.26"):
    """files: dict relpath->content. Adds go.mod unless given."""
    if "go.mod" not in files:
        write(os.path.join(dirpath, "go.mod"), "module %s\n\ngo %s\n" % (modpath, gover))
    for rel, c in files.items():
        write(os.path.join(dirpath, rel), c, "wb" if isinstance(c, bytes) else "w")
    return dirpath


def exec_bin(path, args=(), env=None, timeout=60, input=None, cwd=None):
    e = {"PATH": "/usr/bin:/bin", "HOME": "/nonexistent"}
    if env:
        e.update(env)
    return run([path] + list(args), env=e, timeout=timeout, input=input, cwd=cwd)


def short(b, n=600):
    if isinstance(b, bytes):
        b = b.decode(errors="replace")
    return b if len(b) <= n else b[:n // 2] + "\n...[%d bytes]...\n" % len(b) + b[-n // 2:]


# ---------------------------------------------------------------- function seam (hooked garble)

def hooks_overlay(repo=None, subdir="hooks", pkgdir=""):
    """Overlay that adds the harness files (build tag verif) to a package of the garble module."""
    repo = repo or REPO
    src = os.path.join(VERIF, "harness", subdir)
    ov = {}
    for f in sorted(os.listdir(src)):
        if f.endswith(".go"):
            ov[os.path.join(repo, pkgdir, "zz_" + f)] = os.path.join(src, f)
    return ov


def build_hooked(repo=None, extra_overlay=None):
    ov = hooks_overlay(repo)
    if extra_overlay:
        ov.update(extra_overlay)
    return build_garble(repo, tags="verif", overlay=ov, name="garble-verif")


def run_mode(binpath, mode, env_extra=None, timeout=1800, input=None, cwd=None):
    e = base_env(extra=dict(env_extra or {}, GARBLE_VERIF_MODE=mode))
    p = run([binpath], env=e, timeout=timeout, input=input, cwd=cwd)
    if p.returncode != 0:
        sys.stderr.write(p.stderr.decode(errors="replace")[-6000:])
        log("FATAL: harness mode", mode, "failed with", p.returncode)
        sys.exit(2)
    return json.loads(p.stdout.decode())


# ---------------------------------------------------------------- engine D (linker protocol harness)

def c17_overlay(repo=None):
    """Overlay for the engine-D harness: shim packages, harness files, and linker.go with its os / os/exec /
    lockedfile imports redirected to the shims (generated from the current working tree)."""
    repo = repo or REPO
    ov = {}
    shim = os.path.join(VERIF, "harness/shim")
    for pkg in ("sched", "vos", "vexec", "vlockedfile"):
        for f in os.listdir(os.path.join(shim, pkg)):
            ov[os.path.join(repo, "internal/verif", pkg, f)] = os.path.join(shim, pkg, f)
    ov[os.path.join(repo, "internal/linker/zz_verif_c17.go")] = os.path.join(VERIF, "harness/c17/zz_verif_c17.go")
    ov[os.path.join(repo, "internal/verif/c17main/main.go")] = os.path.join(VERIF, "harness/c17/main.go")
    src = read(os.path.join(repo, "internal/linker/linker.go"))
    n = 0
    for a, b in (('\t"os"\n', '\tos "mvdan.cc/garble/internal/verif/vos"\n'), ('\t"os/exec"\n', '\texec "mvdan.cc/garble/internal/verif/vexec"\n'),
                 ('\t"github.com/rogpeppe/go-internal/lockedfile"\n', '\tlockedfile "mvdan.cc/garble/internal/verif/vlockedfile"\n')):
        if a in src:
            n += 1
        src = src.replace(a, b)
    if n != 3:
        log("FATAL: internal/linker/linker.go no longer imports os, os/exec and lockedfile as expected; the OS shim cannot be applied")
        sys.exit(2)
    gen = os.path.join(CACHE, "gen", "linker_shimmed_%s.go" % sha256(src)[:12])
    write(gen, src)
    ov[os.path.join(repo, "internal/linker/linker.go")] = gen
    return ov


def linker_unlock_order(repo=None):
    """How the toolexec link step of main.go orders unlock and running the linker: 'after-run' (defer or none:
    released at process exit) or 'before-run'. Extracted from the working tree so that the harness driver mirrors it."""
    src = read(os.path.join(repo or REPO, "main.go"))
    i = src.find("linker.PatchLinker(")
    if i < 0:
        log("FATAL: main.go does not call linker.PatchLinker any more")
        sys.exit(2)
    j = src.find("cmd.Run()", i)
    seg = src[i:j if j > 0 else len(src)]
    if re.search(r"^\s*unlock\(\)", seg, re.M):
        return "before-run"
    return "after-run"


def crashsup_bin():
    """The ptrace supervisor (engine C crash points), compiled on demand."""
    out = os.path.join(CACHE, "bin", "crashsup")
    src = os.path.join(VERIF, "crashsup", "crashsup.c")
    with lock(out + ".lock"):
        if not os.path.exists(out) or os.path.getmtime(out) < os.path.getmtime(src):
            os.makedirs(os.path.dirname(out), exist_ok=True)
            p = run(["gcc", "-O2", "-o", out + ".tmp", src])
            if p.returncode != 0:
                log("FATAL: cannot compile crashsup:", p.stderr.decode()); sys.exit(2)
            os.rename(out + ".tmp", out)
    return out


# ---------------------------------------------------------------- engine B: scripted map-iteration worlds

def maporder_goroot():
    """A private copy of the Go toolchain whose runtime takes every map hash seed and iteration offset from a
    deterministic sequence selected by $VERIF_MAPWORLD (0/unset = the real random source). Building garble with it gives
    a garble binary whose own map iteration orders are scripted and replayable; the programs it compiles are unaffected."""
    d = os.path.join(CACHE, "goroot-mapworld")
    with lock(d + ".lock"):
        if os.path.exists(os.path.join(d, "ok")):
            return d
        shutil.rmtree(d, ignore_errors=True)
        subprocess.run(["cp", "-a", GOROOT_TC, d], check=True)
        subprocess.run(["chmod", "-R", "u+w", d], check=True)
        p = os.path.join(d, "src/internal/runtime/maps/runtime.go")
        s = read(p)
        old = "//go:linkname rand\nfunc rand() uint64\n"
        if old not in s:
            log("FATAL: cannot patch internal/runtime/maps/runtime.go (layout changed)"); sys.exit(2)
        s = s.replace(old, '''//go:linkname runtimeRand
func runtimeRand() uint64

// VerifWorld selects a scripted source for map seeds and iteration offsets (verification harness).
var VerifWorld uint64

var verifCounter uint64

func rand() uint64 {
	if VerifWorld == 0 {
		return runtimeRand()
	}
	verifCounter++
	x := VerifWorld*0x9E3779B97F4A7C15 + verifCounter*0xBF58476D1CE4E5B9
	x ^= x >> 31
	x *= 0x94D049BB133111EB
	x ^= x >> 29
	return x
}
''')
        write(p, s)
        p = os.path.join(d, "src/runtime/rand.go")
        s = read(p)
        if "//go:linkname maps_rand internal/runtime/maps.rand\n" not in s:
            log("FATAL: cannot patch runtime/rand.go"); sys.exit(2)
        write(p, s.replace("//go:linkname maps_rand internal/runtime/maps.rand\n", "//go:linkname maps_rand internal/runtime/maps.runtimeRand\n"))
        p = os.path.join(d, "src/runtime/proc.go")
        s = read(p)
        if "\tgoenvs()\n" not in s:
            log("FATAL: cannot patch runtime/proc.go"); sys.exit(2)
        write(p, s.replace("\tgoenvs()\n", "\tgoenvs()\n\tif n, err := strconv.ParseInt(gogetenv(\"VERIF_MAPWORLD\"), 10, 64); err == nil && n > 0 {\n\t\tmaps.VerifWorld = uint64(n)\n\t}\n", 1).replace("\t\"internal/strconv\"\n", "\t\"internal/runtime/maps\"\n\t\"internal/strconv\"\n", 1))
        write(os.path.join(d, "ok"), "")
    return d


def build_garble_mapworld(repo=None):
    """garble built from the working tree with the map-world toolchain."""
    repo = repo or REPO
    root = maporder_goroot()
    th = tree_hash(repo, b"mapworld")
    out = os.path.join(CACHE, "garble", th, "garble-mapworld")
    with lock(os.path.join(CACHE, "garble", th + ".lock")):
        if os.path.exists(out):
            return out
        os.makedirs(os.path.dirname(out), exist_ok=True)
        e = build_env()
        e["PATH"] = root + "/bin:" + e["PATH"]
        e["GOROOT"] = root
        e["GOCACHE"] = mkdir(CACHE, "gobuild-mapworld")
        p = run(["go", "build", "-o", out + ".tmp", "."], cwd=repo, env=e, timeout=1800)
        if p.returncode != 0:
            sys.stderr.write(p.stderr.decode(errors="replace")[-3000:])
            log("FATAL: cannot build garble with the map-world toolchain"); sys.exit(2)
        os.rename(out + ".tmp", out)
    return out
