#!/usr/bin/env python3
"""C16: obfuscated names are well-formed, export-preserving and stable (function seam)."""
import sys, os
sys.path.insert(0, os.path.join(os.path.dirname(os.path.abspath(__file__)), "..", "lib"))
from vlib import *

tier = tier_arg()
R = Result("C16", tier, "exploration")
hb = build_hooked()
env = {"VERIF_C16_MINHITS": "3" if tier == "quick" else "12",
       "VERIF_C16_DISTINCT": "20000" if tier == "quick" else "200000"}
res = run_mode(hb, "c16", env)
for v in (res["violations"] or []):
    R.violation(v["sig"], v["what"], {"replay.txt": "GARBLE_VERIF_MODE=c16 %s\n%s\n" % (hb, v["what"])})
if not res["exhaustive"]:
    R.violation("cells-not-covered", "only %d of %d cells hit %d times within the call cap" % (
        res["cells_hit"], res["cells"], res["min_hits"]))

# program layer: big packages in every scope kind must still build and run (no clashing declarations)
g = Garble(name="c16")
N = 1500 if tier == "quick" else 4000
def bigprog(n):
    a = ["package main\n\nimport \"fmt\"\n"]
    a.append("type S struct {\n" + "".join("\tF%d, f%d int\n" % (i, i) for i in range(n // 2)) + "}\n")
    a += ["func Fn%d() int { return %d }\nfunc fn%d() int { return %d }\n" % (i, i, i, -i) for i in range(n // 2)]
    a += ["var V%d, v%d = %d, %d\n" % (i, i, i, i + 1) for i in range(n // 4)]
    a += ["type T%d int\nfunc (T%d) m%d() int { return %d }\n" % (i, i, i, i) for i in range(n // 4)]
    a.append("func main() {\n\tvar s S\n\tsum := 0\n")
    a += ["\tsum += Fn%d() + fn%d()\n" % (i, i) for i in range(0, n // 2, 7)]
    a += ["\tsum += V%d + v%d + T%d(0).m%d()\n" % (i, i, i, i) for i in range(0, n // 4, 5)]
    a += ["\ts.F%d = %d; s.f%d = %d; sum += s.F%d - s.f%d\n" % (i, i, i, 2 * i, i, i) for i in range(0, n // 2, 9)]
    a.append("\tfmt.Println(sum)\n}\n")
    return "".join(a)
progs = 0
for flags in ([], ["-seed=AAAAAAAAAAA"]) if tier == "quick" else ([], ["-seed=AAAAAAAAAAA"], ["-seed=BBBBBBBBBBBB"], ["-tiny"]):
    d = g.newdir()
    write_module(d, {"main.go": bigprog(N)})
    p0 = g.go(["build", "-o", "plain", "."], d)
    p = g.garble(flags, "build", ["-o", "out", "."], d)
    progs += 1
    if p0.returncode != 0:
        log("generator bug", p0.stderr.decode()); sys.exit(2)
    if p.returncode != 0:
        R.violation("big-package-build-fails", "garble %s build of a package with %d declarations fails: %s" % (flags, N, short(p.stderr)),
                    {"main.go": bigprog(N)})
    elif exec_bin(d + "/out").stdout != exec_bin(d + "/plain").stdout:
        R.violation("big-package-output", "output differs for flags %s" % flags, {"main.go": bigprog(N)})

R.finish({
    "evaluations": res["calls"] + res["distinct_inputs"] + res["random_names"],
    "distinct_nontrivial": res["cells_hit"],
    "rule": "hashWithCustomSalt called on a fixed enumeration of (3 salts x 4 seeds x 6 name classes x counter) until every cell "
            "{first base64 symbol of the hash prefix (64)} x {length 6..12} x {name class} was hit >= %d times; distinct_nontrivial = cells hit; "
            "each result checked for identifier validity, length, charset, exportedness, purity under interleaved calls and "
            "derivation from the sha256 prefix (so clashes need a genuine prefix collision); plus %d distinct identifiers "
            "under 3 salts for distinctness and %d generated big packages built by the real CLI" % (res["min_hits"], res["distinct_inputs"], progs),
    "samples": res["samples"],
    "cells": res["cells"], "cells_hit": res["cells_hit"], "dash_position_cells_hit": res["dash_cells_hit"],
    "length_hist": res["length_hist"], "clashes": res["clashes_total"], "clashes_genuine": res["clashes_genuine"],
    "distinct_outputs": res["distinct_outputs"], "big_programs": progs,
}, assumptions=["crypto/sha256 and encoding/base64 of the Go standard library", "the Go toolchain as evaluator of the generated packages"],
   exhaustive=res["exhaustive"])
