#!/usr/bin/env python3
"""C19: garble touches only its own files (engine A: commands x outcomes x -debugdir target states x cache states)."""
import sys, os, stat
sys.path.insert(0, os.path.join(os.path.dirname(os.path.abspath(__file__)), "..", "lib"))
from vlib import *
from caches import *

tier = tier_arg()
R = Result("C19", tier, "exploration")
g = Garble(name="c19")
nm = build_garble(overlay={os.path.join(REPO, "internal/verifnamemap/main.go"): os.path.join(VERIF, "harness/namemap/main.go")}, name="namemap", pkg="./internal/verifnamemap")
MODP = "example.com/c19"
def module(outcome):
    f = {
        "main.go": "package main\n\nimport (\n\t\"fmt\"\n\n\t\"%s/dep\"\n)\n\nfunc main() { fmt.Println(dep.Value()) }\n" % MODP,
        "main_test.go": "package main\n\nimport \"testing\"\n\nfunc TestMain1(t *testing.T) { main() }\n",
        "dep/dep.go": "package dep\n\nfunc Value() int { return helper() + 1 + second(2) - third() }\n",
        # several assembly files and headers of different lengths in one package (garble reuses one buffer for all of them)
        "dep/second_amd64.s": "#include \"textflag.h\"\n#include \"dep2.h\"\n\n// a longer file than its neighbours\nTEXT ·second(SB),NOSPLIT,$0-16\n\tMOVQ x+0(FP), AX\n\tADDQ $DEPTWO, AX\n\tSUBQ $DEPTWO, AX\n\tADDQ $0, AX // inline comment\n\tADDQ $0, AX\n\tMOVQ AX, ret+8(FP)\n\tRET\n",
        "dep/third_amd64.s": "#include \"textflag.h\"\n\nTEXT ·third(SB),NOSPLIT,$0-8\n\tMOVQ $2, ret+0(FP)\n\tRET\n",
        "dep/dep2.h": "// second header, longer than the first\n#define DEPTWO 1000\n#define DEPUNUSED 7\n",
        "dep/helper_amd64.s": "#include \"textflag.h\"\n#include \"dep.h\"\n\nTEXT ·helper(SB),NOSPLIT,$0-8\n\tMOVQ $DEPCONST, AX\n\tMOVQ AX, ret+0(FP)\n\tRET\n",
        "dep/dep.h": "#define DEPCONST 41\n",
        "dep/decl.go": "package dep\n\nfunc helper() int\n\nfunc second(x int) int\n\nfunc third() int\n",
        "data/keep.txt": "user data that must survive\n",
        "trace.txt": "goroutine 1 [running]:\nmain.main()\n\tsome/file.go:3 +0x1d\n",
    }
    if outcome == "type-error-main":
        f["main.go"] = f["main.go"].replace("dep.Value()", "dep.Value() + \"x\"")
    elif outcome == "compile-error-dep":
        f["dep/dep.go"] = f["dep/dep.go"].replace("helper() + 1", "helper() + undefinedName")
    elif outcome == "link-error":
        f["main.go"] = "package main\n\nimport (\n\t\"fmt\"\n\t_ \"unsafe\"\n\n\t\"%s/dep\"\n)\n\n//go:linkname missing runtime.thisSymbolDoesNotExist\nfunc missing() int\n\nfunc main() { fmt.Println(dep.Value(), missing()) }\n" % MODP
        f["empty.s"] = "// allows bodyless declarations\n"
    return f
def snapshot(root, exclude=()):
    out = {}
    for r, dirs, files in os.walk(root, followlinks=False):
        for n in dirs + files:
            p = os.path.join(r, n)
            rel = os.path.relpath(p, root)
            if any(rel == e or rel.startswith(e + "/") for e in exclude): continue
            st = os.lstat(p)
            if stat.S_ISLNK(st.st_mode): out[rel] = ("link", os.readlink(p))
            elif stat.S_ISDIR(st.st_mode): out[rel] = ("dir", stat.S_IMODE(st.st_mode))
            else: out[rel] = ("file", stat.S_IMODE(st.st_mode), sha256_file(p))
    return out
# command x outcome
OUTCOMES = ["success", "unknown-package", "type-error-main", "compile-error-dep", "link-error", "bad-go-flag", "garble-flag-after-command"]
COMMANDS = ["build", "build-o", "run", "test", "reverse", "map"]
def argv(cmd, outcome):
    pre = []
    target = ["."] if outcome != "unknown-package" else ["./nosuchpkg"]
    if outcome == "bad-go-flag": pre = ["-nosuchflag"]
    if outcome == "garble-flag-after-command": pre = ["-tiny"]
    if cmd == "build": return "build", pre + target, None
    if cmd == "build-o": return "build", pre + ["-o", "bin/prog"] + target, "bin"
    if cmd == "run": return "run", pre + target, None
    if cmd == "test": return "test", pre + (["./..."] if outcome != "unknown-package" else target), None
    if cmd == "reverse": return "reverse", pre + target + ["trace.txt"], None
    if cmd == "map": return "map", pre + (["./..."] if outcome != "unknown-package" else target), None
# debugdir target states
DD_STATES = ["absent", "empty", "owned-stale", "foreign-files", "foreign-subdirs", "symlink-owned", "symlink-foreign", "regular-file", "absent-parent"]
def prep_dd(base, state):
    """returns (path to pass, paths that must stay untouched, expect_refusal)"""
    dd = os.path.join(base, "dbg")
    if state == "absent": return dd, [], False
    if state == "empty": os.makedirs(dd); return dd, [], False
    if state == "owned-stale":
        os.makedirs(os.path.join(dd, "garbled", "old")); write(os.path.join(dd, ".garble-debugdir"), ""); write(os.path.join(dd, "garbled", "old", "stale.go"), "package old\n")
        return dd, [], False
    if state == "foreign-files":
        os.makedirs(dd); write(os.path.join(dd, "precious.txt"), "do not delete\n"); return dd, [dd], True
    if state == "foreign-subdirs":
        os.makedirs(os.path.join(dd, "sub", "deeper")); return dd, [dd], True
    if state == "symlink-owned":
        real = os.path.join(base, "realowned"); os.makedirs(real); write(os.path.join(real, ".garble-debugdir"), ""); write(os.path.join(real, "stale.txt"), "x")
        os.symlink(real, dd); return dd, [], False
    if state == "symlink-foreign":
        real = os.path.join(base, "realforeign"); os.makedirs(real); write(os.path.join(real, "precious.txt"), "keep\n")
        os.symlink(real, dd); return dd, [real], True
    if state == "regular-file":
        write(dd, "i am a file\n"); return dd, [dd], True
    if state == "absent-parent":
        return os.path.join(base, "no", "such", "parent", "dbg"), [], False
base_caches = ensure_base(g, [], None)
cases = []
for cmd in COMMANDS:
    for oc in OUTCOMES:
        if tier == "quick" and cmd in ("run", "test") and oc in ("compile-error-dep", "bad-go-flag"): continue
        cases.append(("cmd", cmd, oc, None, "warm"))
for st in DD_STATES:
    for cache in (["warm"] if tier == "quick" and st not in ("absent", "owned-stale") else ["warm", "cold"]):
        cases.append(("dd", "build", "success", st, cache))
if tier != "quick":
    for st in ("foreign-files", "owned-stale", "absent"):
        for oc in ("type-error-main", "compile-error-dep", "unknown-package"):
            cases.append(("dd", "build", oc, st, "warm"))
# garble rewrites assembly and its headers line by line (names next to a middle dot are replaced, inline comments dropped, #include of a
# local header redirected): a garbled .s/.h file must be the line-by-line image of the source file of the same name, in every package
import re
_rx_asmname = re.compile(r"[\w\u2215./]*\u00b7\w*")
def _asm_norm(line, is_header):
    if not is_header:
        code, sep, comment = line.partition("//")
        if sep and code == "": return "//" + comment
        line = code
        if line.startswith("#include"): return "#include"
    return _rx_asmname.sub("\u00b7N", line)
def check_asm_tree(real):
    problems = []; n = 0
    groot = os.path.join(real, "garbled")
    for r, _, fs in os.walk(groot):
        for f in fs:
            if not f.endswith((".s", ".h")): continue
            rel = os.path.relpath(os.path.join(r, f), groot)
            sp = os.path.join(real, "source", rel)
            if f.startswith("garbled_") or not os.path.exists(sp): continue
            n += 1
            gl = read(os.path.join(r, f)).split("\n"); sl = read(sp).split("\n")
            hdr = f.endswith(".h")
            if len(gl) != len(sl):
                problems.append("%s: %d lines, its source has %d" % (rel, len(gl) - 1, len(sl) - 1)); continue
            for i, (a, b) in enumerate(zip(gl, sl)):
                if _asm_norm(a, hdr).rstrip() != _asm_norm(b, hdr).rstrip():
                    problems.append("%s:%d: %r is not the image of %r" % (rel, i + 1, a[:80], b[:80])); break
    return problems, n
def run_case(ci):
    kind, cmd, oc, ddstate, cache = cases[ci]
    root = os.path.join(g.root, "case%d" % ci)
    src = os.path.join(root, "src"); write_module(src, module(oc), modpath=MODP)
    os.makedirs(os.path.join(src, "bin"), exist_ok=True)
    tmp = os.path.join(root, "tmp"); os.makedirs(tmp)
    if cache == "cold":
        gc, gcache = compose(os.path.join(root, "caches"), [base_caches])
        shutil.rmtree(os.path.join(gcache, "build"), ignore_errors=True)
        gg = Garble(binpath=g.bin, gocache=gc, garblecache=gcache, name="c19")
    else:
        gg = g
    command, args, outdir = argv(cmd, oc)
    gflags = []
    untouched = []; refuse = False; ddpath = None
    if ddstate:
        ddpath, untouched, refuse = prep_dd(root, ddstate)
        gflags = ["-debugdir=" + ddpath]
    before = snapshot(src)
    before_untouched = {u: (snapshot(u) if os.path.isdir(u) and not os.path.islink(u) else sha256_file(u)) for u in untouched}
    p = gg.garble(gflags, command, args, src, tmpdir=tmp, input=b"")
    after = snapshot(src)
    v = []
    label = "garble %s %s %s [%s%s, %s caches]" % (" ".join(gflags).replace(root, "<case>"), command, " ".join(args), oc, (", debugdir " + ddstate) if ddstate else "", cache)
    # the source tree is byte-identical apart from the requested output
    allowed = set()
    if p.returncode == 0 and cmd == "build": allowed.add("c19")          # go build writes the binary named after the module's last element
    if p.returncode == 0 and cmd == "build-o": allowed.add("bin/prog")
    diff = sorted(k for k in set(before) | set(after) if before.get(k) != after.get(k) and k not in allowed)
    if diff:
        v.append(("source-tree-modified:" + cmd, "%s: source tree changed: %s" % (label, [(k, before.get(k, "absent")[0], after.get(k, "absent")[0]) for k in diff[:6]])))
    left = os.listdir(tmp)
    if left:
        v.append(("tmpdir-not-clean:%s:%s" % (cmd, oc), "%s: TMPDIR still holds %s after exit %d" % (label, left[:5], p.returncode)))
    # reverse and map never link, so an undefined linkname target is not an error for them
    expect_ok = (oc == "success" or (oc == "link-error" and cmd in ("reverse", "map"))) and not refuse
    if expect_ok and p.returncode != 0 and not (cmd == "reverse" and p.returncode == 1):
        v.append(("command-fails:%s" % cmd, "%s: exit %d: %s" % (label, p.returncode, short(p.stderr, 600))))
    if not expect_ok and p.returncode == 0 and oc != "success" and not (oc == "link-error" and cmd in ("reverse", "map")):
        v.append(("error-not-reported:%s:%s" % (cmd, oc), "%s: exit 0" % label))
    for u in untouched:
        now = snapshot(u) if os.path.isdir(u) and not os.path.islink(u) else (sha256_file(u) if os.path.exists(u) else None)
        if now != before_untouched[u]:
            v.append(("foreign-debugdir-modified:" + ddstate, "%s: the foreign -debugdir target was modified" % label))
    if refuse and p.returncode == 0:
        v.append(("foreign-debugdir-accepted:" + ddstate, "%s: garble accepted a directory it does not own" % label))
    ddfiles = None
    if ddstate and not refuse and oc == "success" and p.returncode == 0:
        real = os.path.realpath(ddpath)
        ddfiles = sorted(os.path.relpath(os.path.join(r, f), real) for r, _, fs in os.walk(real) for f in fs)
        # every garbled file must be the obfuscated form of the source file of the same name
        pn = run([nm, src, MODP, real], env=g.env(), timeout=600)
        if pn.returncode == 0:
            for rep in json.loads(pn.stdout):
                for pr in rep["problems"] or []:
                    v.append(("debugdir-garbled-content", "%s: %s: %s" % (label, rep["import_path"], pr)))
        asm_problems, asm_n = check_asm_tree(real)
        for pr in asm_problems[:3]:
            v.append(("debugdir-garbled-asm-content", "%s: %s (%d of %d assembly/header files differ)" % (label, pr, len(asm_problems), asm_n)))
        if asm_n < 20:
            v.append(("debugdir-garbled-asm-missing", "%s: only %d assembly/header files could be compared" % (label, asm_n)))
        if any("stale" in f for f in ddfiles):
            v.append(("debugdir-stale-files:" + ddstate, "%s: stale files survive in an owned debugdir: %s" % (label, [f for f in ddfiles if "stale" in f])))
    shutil.rmtree(root, ignore_errors=True)
    return ci, v, ddfiles, p.returncode
results = pmap(run_case, range(len(cases)), workers=6)
dd_sets = {}
for ci, v, ddfiles, rc in results:
    for sig, what in v:
        R.violation(sig, what, {"case.txt": what + "\n"})
    if ddfiles is not None:
        dd_sets[ci] = ddfiles
# completeness of owned debugdirs: all successful runs must hold the same, complete file set (cold == warm), and it must
# contain every source file of the module's packages in both trees
if dd_sets:
    ref_ci = max(dd_sets, key=lambda c: len(dd_sets[c]))
    ref = set(dd_sets[ref_ci])
    for ci, fs in dd_sets.items():
        if set(fs) != ref:
            k = cases[ci]
            R.violation("debugdir-incomplete:%s:%s" % (k[3], k[4]), "debugdir state %s with %s caches holds %d files, another run of the same build holds %d; missing e.g. %s" % (
                k[3], k[4], len(fs), len(ref), sorted(ref - set(fs))[:4]))
    need = ["source/%s/main.go" % MODP, "source/%s/dep/dep.go" % MODP, "source/%s/dep/decl.go" % MODP, "source/%s/dep/helper_amd64.s" % MODP, "source/%s/dep/second_amd64.s" % MODP, "source/%s/dep/dep2.h" % MODP, "garbled/%s/dep/third_amd64.s" % MODP, "source/runtime/proc.go", "source/fmt/print.go"]
    for n in need:
        if n not in ref:
            R.violation("debugdir-missing-source", "the owned debugdir lacks %s" % n)
    garbled = [f for f in ref if f.startswith("garbled/")]
    srcs = [f for f in ref if f.startswith("source/") and f.endswith((".go", ".s"))]
    if len(garbled) < 0.9 * len(srcs):
        R.violation("debugdir-garbled-tree-incomplete", "garbled tree holds %d files for %d source files" % (len(garbled), len(srcs)))
R.finish({
    "evaluations": len(cases),
    "distinct_nontrivial": len(set((c[1], c[2], c[3], c[4]) for c in cases)),
    "rule": "commands {build, build -o, run, test, reverse, map} x outcomes {success, unknown package, type error in main, compile error in a dependency, link error, bad go flag, garble flag after the command} "
            "and build x -debugdir target states {absent, empty, owned with stale files, foreign files, foreign sub-directories only, symlink to owned / foreign, regular file, absent parent} x {warm, cold GARBLE_CACHE}; "
            "oracle: recursive snapshot (names, modes, contents, link targets) of the source tree before = after minus the requested output, private TMPDIR empty afterwards, foreign targets byte-identical and refused, "
            "owned targets hold one identical complete file set in every run; garbled Go files are the obfuscated form of the same-named source file (declaration skeleton), "
            "garbled assembly and header files of every package (std included) are the line-by-line image of the same-named source file",
    "samples": [list(c) for c in cases[:3] + cases[-2:]],
    "debugdir_file_sets_compared": len(dd_sets), "files_in_complete_debugdir": len(dd_sets[max(dd_sets, key=lambda c: len(dd_sets[c]))]) if dd_sets else 0,
}, assumptions=["TMPDIR is private to each run, so leftovers are attributable"], exhaustive=True)
