#!/usr/bin/env python3
"""C12: name salting: fixed by -seed, otherwise tied to the build inputs (engine A, pairwise single-input differences)."""
import sys, os
sys.path.insert(0, os.path.join(os.path.dirname(os.path.abspath(__file__)), "..", "lib"))
from vlib import *

tier = tier_arg()
R = Result("C12", tier, "exploration")
g = Garble(name="c12")
nm = build_garble(overlay={os.path.join(REPO, "internal/verifnamemap/main.go"): os.path.join(VERIF, "harness/namemap/main.go")}, name="namemap", pkg="./internal/verifnamemap")
# a second garble binary that differs only in its content ID
noop_src = os.path.join(CACHE, "gen", "zz_noop.go")
write(noop_src, "package main\n\nvar verifNoopVersionMarker = \"another garble build\"\n\nfunc init() { _ = verifNoopVersionMarker }\n")
def files(modp, edit=None):
    e = edit or {}
    return {
        "main.go": "package main\n\nimport (\n\t\"fmt\"\n\n\t\"%s/lib\"\n\t\"%s/side\"\n)\n\ntype Config struct {\n\tName  string\n\tlevel int\n}\n\nfunc run(c Config) string { return c.Name + fmt.Sprint(c.level) }\n\nfunc main() { fmt.Println(run(Config{\"x\", %d}), lib.Helper(1), side.Helper(2)) }\n" % (modp, modp, e.get("main", 1)),
        "extra.go": "//go:build !c12tag\n\npackage main\n\nfunc tagged() int { return 0 }\n",
        "extra_tag.go": "//go:build c12tag\n\npackage main\n\nfunc tagged() int { return 1 }\n",
        "lib/lib.go": "package lib\n\nimport \"%s/lib/leaf\"\n\ntype Thing struct {\n\tSize  int\n\tlabel string\n}\n\nfunc (t Thing) Weight() int { return t.Size * 2 }\n\nfunc (t *Thing) rename(s string) { t.label = s }\n\nvar registry = map[string]Thing{}\n\nconst limit = 10\n\nfunc Helper(n int) int {\n\tt := Thing{Size: n}\n\tt.rename(\"a\")\n\tregistry[\"k\"] = t\n\treturn t.Weight() + limit + leaf.Leaf(%d)\n}\n" % (modp, e.get("lib", 1)),
        "lib/other.go": "package lib\n\nfunc unrelated() int { return %d }\n\nvar _ = unrelated\n" % e.get("lib-unrelated", 1),
        "lib/leaf/leaf.go": "package leaf\n\ntype Node struct {\n\tSize  int\n\tlabel string\n}\n\nfunc Leaf(n int) int { return Node{Size: n + %d}.Size }\n" % e.get("leaf", 0),
        "side/side.go": "package side\n\ntype Thing struct {\n\tSize  int\n\tlabel string\n}\n\nfunc Helper(n int) int { return Thing{Size: n}.Size }\n",
    }
SA, SB = "-seed=AAAAAAAAAAA", "-seed=BBBBBBBBBBBB"
MOD = "example.com/c12"
# build descriptors: name -> (garble bin, flags, env, buildflags, module path, edit)
B = {
    "seeded": (None, [SA], {}, [], MOD, None),
    "seeded+literals": (None, [SA, "-literals"], {}, [], MOD, None),
    "seeded+tiny": (None, [SA, "-tiny"], {}, [], MOD, None),
    "seeded+tags": (None, [SA], {}, ["-tags=c12tag"], MOD, None),
    "seeded+edit-lib": (None, [SA], {}, [], MOD, {"lib-unrelated": 2}),
    "seeded+edit-leaf": (None, [SA], {}, [], MOD, {"leaf": 5}),
    "seeded+rename": (None, [SA], {}, [], MOD + "renamed", None),
    "seedB": (None, [SB], {}, [], MOD, None),
    # two seeds longer than 8 bytes sharing their first 8 bytes: every seed byte takes part in name hashing
    "seedLong1": (None, ["-seed=QUJDREVGR0gwMDAx"], {}, [], MOD, None),
    "seedLong2": (None, ["-seed=QUJDREVGR0gwMDAy"], {}, [], MOD, None),
    "plain": (None, [], {}, [], MOD, None),
    "plain-again": (None, [], {}, [], MOD, None),
    "plain+literals": (None, ["-literals"], {}, [], MOD, None),
    "plain+edit-lib": (None, [], {}, [], MOD, {"lib-unrelated": 2}),
    "plain+edit-leaf": (None, [], {}, [], MOD, {"leaf": 5}),
    "plain+gogarble": (None, [], {"GOGARBLE": MOD}, [], MOD, None),
}
if tier == "quick":
    for k in ("seeded+tiny", "seeded+edit-leaf", "plain+edit-leaf"): B.pop(k)
if tier != "quick":
    B.update({
        "plain+tiny": (None, ["-tiny"], {}, [], MOD, None),
        "plain+tags": (None, [], {}, ["-tags=c12tag"], MOD, None),
        "plain+othergarble": ("noop", [], {}, [], MOD, None),
        "seeded+othergarble": ("noop", [SA], {}, [], MOD, None),
        "seeded+gogarble": (None, [SA], {"GOGARBLE": MOD}, [], MOD, None),
        "seeded+arm64": (None, [SA], {"GOARCH": "arm64"}, [], MOD, None),
    })
noop_bin = build_garble(overlay={os.path.join(REPO, "zz_noop.go"): noop_src}, name="garble-noop") if any(v[0] == "noop" for v in B.values()) else None
def build(name):
    binp, fl, env, bf, modp, edit = B[name]
    gg = Garble(binpath=noop_bin, name="c12") if binp == "noop" else g
    d = os.path.join(g.root, "m-" + name, "mod")
    write_module(d, files(modp, edit), modpath=modp)
    dd = os.path.join(g.root, "m-" + name, "dd")
    p = gg.garble(fl + ["-debugdir=" + dd], "build", bf + ["-o", os.path.join(g.root, "m-" + name, "out"), "."], d, extra_env=env or None, tmpdir=os.path.join(g.root, "tmp-" + name))
    if p.returncode != 0:
        return name, None, short(p.stderr, 1500)
    pn = run([nm, d, modp, dd], env=g.env(), timeout=600)
    if pn.returncode != 0:
        log("namemap failed", pn.stderr.decode()[-1500:]); os._exit(2)
    out = {}
    for rep in json.loads(pn.stdout):
        key = rep["import_path"].replace(modp, "M")
        out[key] = {"dir": rep["garbled_dir"], "names": rep["names"], "problems": rep["problems"]}
    shutil.rmtree(dd, ignore_errors=True)
    return name, out, None
maps = {}
for name, out, err in pmap(build, list(B), workers=4):
    if out is None:
        R.violation("build-fails:" + name, "build %s fails: %s" % (name, err)); continue
    maps[name] = out
    for k, v in out.items():
        for pr in v["problems"] or []:
            if "not obfuscated" not in pr:
                R.violation("pairing-problem", "%s %s: %s" % (name, k, pr))
def pkgscoped(m, pkg): return {k: v for k, v in m[pkg]["names"].items() if not k.startswith("field ") and not k.startswith("const ")}
def fields(m, pkg): return {k: v for k, v in m[pkg]["names"].items() if k.startswith("field ")}
pairs = 0; names_compared = 0
def expect_equal(a, b, pkgs, what, sel):
    global pairs, names_compared
    if a not in maps or b not in maps: return
    pairs += 1
    for pkg in pkgs:
        if pkg not in maps[a] or pkg not in maps[b]: continue
        x, y = sel(maps[a], pkg), sel(maps[b], pkg)
        for k in sorted(set(x) & set(y)):
            names_compared += 1
            if x[k] != y[k]:
                R.violation("seeded-name-depends-on:" + what if "seed" in a else "name-changes-without-input-change:" + what,
                            "%s vs %s: %s %s is %q vs %q (must be equal)" % (a, b, pkg, k, x[k], y[k])); return
def expect_all_differ(a, b, pkgs, what, sel, check_dir=False):
    global pairs, names_compared
    if a not in maps or b not in maps: return
    pairs += 1
    for pkg in pkgs:
        if pkg not in maps[a] or pkg not in maps[b]: continue
        x, y = sel(maps[a], pkg), sel(maps[b], pkg)
        same = [k for k in sorted(set(x) & set(y)) if x[k] == y[k] and x[k] != k.split(" ")[-1].split(".")[-1]]
        names_compared += len(set(x) & set(y))
        if same:
            R.violation("name-ignores-input:" + what, "%s vs %s: %s keeps %s although %s differs" % (a, b, pkg, same[:4], what))
        if check_dir and pkg != "M" and maps[a][pkg]["dir"] == maps[b][pkg]["dir"]:
            R.violation("import-path-ignores-input:" + what, "%s vs %s: obfuscated import path of %s unchanged (%s)" % (a, b, pkg, maps[a][pkg]["dir"]))
ALLP = ["M", "M/lib", "M/lib/leaf", "M/side"]
both = lambda m, p: m[p]["names"]
# seeded: equal across everything except the seed and the package path
for other, what in (("seeded+literals", "-literals"), ("seeded+tiny", "-tiny"), ("seeded+tags", "tags"), ("seeded+edit-lib", "edit"), ("seeded+edit-leaf", "edit-dep"),
                    ("seeded+othergarble", "garble-version"), ("seeded+gogarble", "GOGARBLE"), ("seeded+arm64", "GOARCH")):
    expect_equal("seeded", other, ALLP, what, both)
for pkg in ALLP:
    if "seeded" in maps and "seeded+rename" in maps and pkg in maps["seeded"] and pkg in maps["seeded+rename"]:
        pairs += 1
        if maps["seeded"][pkg]["dir"] != maps["seeded+rename"][pkg]["dir"] or pkg == "M": pass
expect_all_differ("seeded", "seedB", ALLP, "seed", both, check_dir=True)
expect_all_differ("seedLong1", "seedLong2", ALLP, "seed-beyond-8-bytes", both, check_dir=True)
expect_all_differ("seeded", "seeded+rename", ["M/lib", "M/lib/leaf", "M/side"], "package-path", pkgscoped, check_dir=True)
expect_equal("seeded", "seeded+rename", ALLP, "package-path(fields)", fields)
# same identifier in two packages
for bname in ("seeded", "plain"):
    if bname in maps:
        a, b = maps[bname]["M/lib"]["names"], maps[bname]["M/side"]["names"]
        pairs += 1
        for k in ("func Helper", "type Thing"):
            names_compared += 1
            if a.get(k) and a.get(k) == b.get(k):
                R.violation("same-name-in-two-packages", "%s: %s is %q in both lib and side" % (bname, k, a[k]))
        # identical struct shapes share field names (C15), different shapes do not collide with package salt
# unseeded
expect_equal("plain", "plain-again", ALLP, "nothing", both)
for other, what, pkgs in (("plain+literals", "-literals", ALLP), ("plain+tiny", "-tiny", ALLP), ("plain+othergarble", "garble-version", ALLP), ("plain+gogarble", "GOGARBLE", ALLP)):
    expect_all_differ("plain", other, pkgs, what, pkgscoped, check_dir=True)
    expect_all_differ("plain", other, pkgs, what + "(fields)", fields)
expect_all_differ("plain", "plain+edit-lib", ["M/lib", "M"], "source-edit", pkgscoped, check_dir=True)
expect_all_differ("plain", "plain+edit-leaf", ["M/lib/leaf", "M/lib", "M"], "source-edit-in-dependency", pkgscoped, check_dir=True)
expect_equal("plain", "plain+edit-lib", ["M/side", "M/lib/leaf"], "edit-elsewhere", both)
expect_equal("plain", "plain+edit-leaf", ["M/side"], "edit-elsewhere", both)
expect_equal("plain", "plain+edit-lib", ALLP, "source-edit(fields)", fields)
expect_equal("plain", "plain+tags", ["M/lib", "M/lib/leaf", "M/side"], "tags-elsewhere", both)

R.finish({
    "evaluations": len(B),
    "distinct_nontrivial": pairs,
    "rule": "complete name maps (package-level objects, methods, fields, obfuscated import paths) recovered from -debugdir output of %d builds of a 4-package module; all pairs of builds that differ in exactly one input "
            "among {-literals, -tiny, seed value, -tags, GOGARBLE, unrelated edit in the package, edit in a dependency, package path%s}; oracle per name: seeded names equal unless seed/package path differ "
            "(then all differ), unseeded package-scoped names and import path all change when an input of the package changes and stay equal otherwise, fields change with garble inputs only; "
            "distinct_nontrivial = build pairs judged" % (len(B), ", garble binary, GOARCH" if tier != "quick" else ""),
    "samples": [{"build": n, "names_in_lib": len(maps[n]["M/lib"]["names"])} for n in list(maps)[:4] if "M/lib" in maps[n]],
    "names_compared": names_compared, "builds": len(B),
}, assumptions=["an accidental equality of two independent hashes (p < 2^-36 per name) would be reported as a violation; it is replayable and explainable"], exhaustive=True)
