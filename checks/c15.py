#!/usr/bin/env python3
"""C15: identical struct types get identical field names everywhere (function seam + engine A)."""
import sys, os, itertools
sys.path.insert(0, os.path.join(os.path.dirname(os.path.abspath(__file__)), "..", "lib"))
from vlib import *
from enga import *

tier = tier_arg()
R = Result("C15", tier, "exploration")
hb = build_hooked()
res = run_mode(hb, "c15", {"VERIF_C15_MAXFIELDS": "3" if tier == "quick" else "4"}, timeout=3000)
for v in res["violations"] or []:
    R.violation(v["sig"], v["what"], {"replay.txt": "GARBLE_VERIF_MODE=c15 " + hb + "\n" + v["what"] + "\n"})
log("function seam: %d shapes, %d structs, %d identity classes, %d identical pairs" % (res["shapes"], res["structs"], res["identity_classes"], res["identical_pairs_checked"]))

# ---- program layer
TYPES = {"int": ("int", lambda i: str(i + 1)), "string": ("string", lambda i: '"s%d"' % i), "bytes": ("[]byte", lambda i: '[]byte("b%d")' % i),
         "emb": (None, None)}
def shapes(maxk):
    for k in range(1, maxk + 1):
        for names in itertools.permutations(["A", "C", "E"], k):
            for tys in itertools.product(["int", "string", "bytes"], repeat=k):
                yield list(zip(names, tys))
    # embedded exported named type from another package, in each position of a 2-field struct
    yield [("Emb@", "emb"), ("A", "int")]
    yield [("A", "string"), ("Emb@", "emb")]
    yield [("Emb@", "emb")]
def decl(fields, frm, tags=None, tsub=None):
    out = []
    for i, (n, t) in enumerate(fields):
        if t == "emb":
            out.append("\t%s%s" % ("" if frm == "bc" else "bc.", n))
        else:
            ty = TYPES[t][0]
            if tsub is not None and i == tsub:
                ty = "T"
            out.append("\t%s %s%s" % (n, ty, (" `%s:\"%s\"`" % (tags, n.lower())) if tags and i % 2 == 0 else ""))
    return "struct {\n" + "\n".join(out) + "\n}"
def lit(fields, keyed, frm="main"):
    vals = []
    for i, (n, t) in enumerate(fields):
        v = ("%sEmb@{V: %d}" % ("" if frm == "bc" else "bc.", i + 5)) if t == "emb" else TYPES[t][1](i)
        vals.append(("%s: %s" % (n, v)) if keyed else v)
    return "{" + ", ".join(vals) + "}"
def show(var, fields):
    parts = []
    for n, t in fields:
        if t == "emb": parts.append("%s.%s.V, %s.V" % (var, n, var))
        elif t == "bytes": parts.append("string(%s.%s)" % (var, n))
        else: parts.append("%s.%s" % (var, n))
    return "fmt.Println(%s)" % ", ".join(parts)
def mkunit(fields):
    has_emb = any(t == "emb" for _, t in fields)
    gen_ok = fields[0][1] == "int"
    a = "type SA@ %s\n\nfunc ShowA@(v SA@) string { return fmt.Sprint(v) }\n" % decl(fields, "a", tags="json")
    bc = "type SB@ %s\n\nfunc MakeB@() SB@ { return SB@%s }\n" % (decl(fields, "bc", tags="xml"), lit(fields, True, "bc"))
    if has_emb:
        bc += "\ntype Emb@ struct{ V int }\n"
    if gen_ok:
        bc += "\ntype G@[T any] %s\n" % decl(fields, "bc", tsub=0)
    decls = "type AL@ = a.SA@\n\ntype loc@ %s\n\nvar anon@ = %s%s\n" % (decl(fields, "main"), decl(fields, "main"), lit(fields, False))
    body = ["\tva := a.SA@%s" % lit(fields, True), "\tvb := bc.SB@(va)", "\tvc := loc@(vb)", "\tvar vd AL@ = AL@(vc)",
            "\tanon@ = vc", "\tvt := %s(vd)" % decl(fields, "main", tags="k"), "\tvd = AL@(vt)",
            "\tve := bc.SB@(anon@)", "\tvf := a.SA@(bc.MakeB@())",
            "\t" + show("va", fields), "\t" + show("vb", fields), "\t" + show("vc", fields), "\t" + show("vd", fields), "\t" + show("anon@", fields),
            "\t" + show("ve", fields), "\t" + show("vf", fields)]
    if gen_ok:
        body += ["\tvg := bc.G@[int](va)", "\tvh := loc@(vg)", "\t" + show("vg", fields), "\t" + show("vh", fields)]
    return Unit("struct " + " ".join("%s:%s" % f for f in fields), "\n".join(body), decls=decls, pkgs={"a": a, "bc": bc})
units = [mkunit(s) for s in shapes(2 if tier == "quick" else 3)]
g = Garble(name="c15")
nu = number(units)
CONFIGS = [[], ["-seed=AAAAAAAAAAA"]] if tier == "quick" else [[], ["-seed=AAAAAAAAAAA"], ["-tiny"], ["-literals", "-seed=BBBBBBBBBBBB"]]
packs = [nu[i:i + 120] for i in range(0, len(nu), 120)]
jobs = [(p, fl) for p in packs for fl in CONFIGS]
built = 0
for (p, fl), r in zip(jobs, pmap(lambda j: build_pack(g, j[0], j[1], argvs=[[]]), jobs, workers=6)):
    built += 1
    if not r.plain_ok:
        log("generator bug:", short(r.garble_stderr, 3000)); sys.exit(2)
    if r.build_ok is False:
        small = bisect_build_failure(g, p, fl)
        r2 = build_pack(g, small, fl, argvs=[])
        for n, u in small[:3]:
            R.violation("program-build-fails:" + u.name, "garble %s build fails for %s: %s" % (fl, u.name, short(r2.garble_stderr, 1200)),
                        {"module/" + k: v for k, v in assemble(small, header_main=PTR_HELPER).items()})
    for n, desc in r.bad_units.items():
        u = dict(p).get(n)
        R.violation("program-output:" + (u.name if u else "exit"), "flags %s: %s" % (fl, desc))

R.finish({
    "evaluations": res["structs"] + built,
    "distinct_nontrivial": res["identity_classes"],
    "rule": "function seam: every struct with <=%s fields over field specs {A,b,C} x {int,string,T,*S,[]S,q.N} + embedded {q.N,*S}, each in variants (3 tag modes x field objects of 2 packages x "
            "underlying-of-named / alias / generic origin + instantiation), seeded and unseeded; classes by types.IdenticalIgnoreTags; oracle: equal hashWithStruct names within a class and between a "
            "generic origin and its instantiation; distinct_nontrivial = identity classes (each has several members); program layer: %d generated struct shapes converted across 3 packages, built by the CLI under %d configs"
            % ("3" if tier == "quick" else "4", len(units), len(CONFIGS)),
    "samples": res["samples"][:6] + [units[0].name, units[-1].name],
    "shapes": res["shapes"], "structs": res["structs"], "identical_pairs_checked": res["identical_pairs_checked"], "hash_calls": res["hash_calls"],
    "generic_instantiations": res["generic_instantiations"], "program_units": len(units), "modules_built": built,
}, assumptions=["go/types IdenticalIgnoreTags is the definition of struct identity", "the plain toolchain is the behavioural reference"], exhaustive=True)
