#!/usr/bin/env python3
"""C13: garble map, the build and garble reverse agree on every name (engine A)."""
import sys, os
sys.path.insert(0, os.path.join(os.path.dirname(os.path.abspath(__file__)), "..", "lib"))
from vlib import *

tier = tier_arg()
R = Result("C13", tier, "exploration")
g = Garble(name="c13")
nm = build_garble(overlay={os.path.join(REPO, "internal/verifnamemap/main.go"): os.path.join(VERIF, "harness/namemap/main.go")}, name="namemap", pkg="./internal/verifnamemap")
MODP = "example.com/c13"
FILES = {
    "main.go": "package main\n\nimport (\n\t\"fmt\"\n\n\t\"%s/api\"\n\t\"%s/api/sub\"\n)\n\nfunc main() {\n\tv := api.New(3)\n\tfmt.Println(v.Value(), api.Exported, sub.Helper(2), api.UseGeneric())\n}\n" % (MODP, MODP),
    "api/api.go": '''package api

import "example.com/c13/api/sub"

type Public struct {
	Count  int
	hidden string
	Nested struct {
		Deep  int
		under bool
	}
	sub.Base
	Ptr *sub.Base
}

type private struct {
	Field int
	other string
}

type Embeds struct {
	Plain
	*Generic[int]
	Extra bool
}

type Plain struct{ P int }

type Generic[T any] struct {
	Item  T
	items []T
}

func (g *Generic[T]) Get() T { return g.Item }

func (g *Generic[T]) unexportedGet() []T { return g.items }

type Iface interface {
	Method() int
	unexportedMethod() string
}

type Alias = Public

type Named int

func (n Named) String() string { return "n" }

func (n Named) secret() int { return int(n) }

const ExportedConst = 7

const unexportedConst = 8

var Exported = 5

var unexported = private{1, "o"}

var Anonymous struct {
	AnonField int
	anonPriv  string
}

func New(n int) *Public { return &Public{Count: n + unexported.Field + unexportedConst} }

func (p *Public) Value() int { return p.Count + len(p.hidden) + p.helper() }

func (p *Public) helper() int { return int(Named(1).secret()) }

func (p Public) Method() int { return 1 }

func (p Public) unexportedMethod() string { return "u" }

func UseGeneric() int {
	g := &Generic[int]{Item: 4}
	e := Embeds{Plain{1}, g, true}
	var i Iface = Public{}
	return g.Get() + len(g.unexportedGet()) + e.P + i.Method() + len(i.unexportedMethod()) + helperFunc(2)
}

func helperFunc(x int) int { return x * ExportedConst }

func Variadic(parts ...string) (joined string, count int) { return "", len(parts) }
''',
    "api/second.go": "package api\n\ntype Second struct {\n\tA, B int\n\tc    string\n}\n\nfunc (s Second) Sum() int { return s.A + s.B + len(s.c) }\n\nvar secondVar = Second{1, 2, \"x\"}\n\nfunc SecondSum() int { return secondVar.Sum() }\n",
    "api/tagged.go": "//go:build c13tag\n\npackage api\n\ntype OnlyWithTag struct{ TagField int }\n\nfunc TagFunc() int { return 9 }\n",
    "api/sub/sub.go": "package sub\n\ntype Base struct {\n\tID   int\n\tname string\n}\n\nfunc (b Base) Describe() string { return b.name }\n\nfunc Helper(n int) int { return n + len(Base{}.Describe()) + internalHelper() }\n\nfunc internalHelper() int { return 1 }\n",
}
CONFIGS = [([], {}, []), (["-seed=AAECAwQFBgcICQ"], {}, []), (["-tiny"], {}, [])]   # the seed is longer than 8 bytes on purpose: every byte takes part in name hashing
if tier != "quick":
    CONFIGS += [([], {"GOGARBLE": MODP + "/api"}, []), ([], {}, ["-tags=c13tag"]), (["-literals", "-seed=AAAAAAAAAAA"], {}, []), ([], {"GOGARBLE": MODP + "/api/sub," + MODP}, [])]
listed_total = 0; checked_total = 0; pkgs_total = 0; reversed_total = 0
def one(cfg):
    fl, env, bf = cfg
    d = g.newdir("m")
    write_module(d, FILES, modpath=MODP)
    label = "garble %s %s %s" % (" ".join(fl), " ".join("%s=%s" % kv for kv in env.items()), " ".join(bf))
    v = []
    pm = g.garble(fl, "map", bf + ["./..."], d, extra_env=env or None)
    if pm.returncode != 0:
        return [("map-fails", "%s map ./... fails: %s" % (label, short(pm.stderr)))], 0, 0, 0, 0
    write(os.path.join(d, "map.json"), pm.stdout.decode())
    dd = os.path.join(g.root, "dd-" + os.path.basename(d))
    pb = g.garble(fl + ["-debugdir=" + dd], "build", bf + ["-o", os.path.join(d, "out.bin"), "."], d, extra_env=env or None)
    if pb.returncode != 0:
        return [("build-fails", "%s build fails: %s" % (label, short(pb.stderr)))], 0, 0, 0, 0
    os.remove(os.path.join(d, "out.bin"))
    pn = run([nm, d, MODP, dd, os.path.join(d, "map.json")], env=g.env(), timeout=600)
    if pn.returncode != 0:
        log("namemap failed:", pn.stderr.decode()[-2000:]); os._exit(2)
    reports = json.loads(pn.stdout)
    gmap = json.loads(pm.stdout)
    listed = checked = pkgs = 0
    gog = env.get("GOGARBLE")
    for rep in reports:
        ip = rep["import_path"]
        in_scope = gog is None or any(ip == pat or ip.startswith(pat + "/") for pat in gog.split(","))
        if ip not in gmap:
            if in_scope and ip != MODP:
                v.append(("package-not-listed", "%s: package %s is obfuscated but missing from garble map" % (label, ip)))
            continue
        pkgs += 1
        listed += len(gmap[ip]["objects"]); checked += rep["map_objects_checked"]
        for pr in rep["problems"] or []:
            v.append(("pairing-problem", "%s: %s: %s" % (label, ip, pr)))
        if not rep["map_path_ok"] and ip != MODP:   # package main keeps the path "main" by design
            v.append(("path-differs", "%s: %s: garble map path %r but the build uses %r" % (label, ip, gmap[ip]["path"], rep["garbled_dir"])))
        for w in rep["map_wrong"] or []:
            kind = re.search(r"\((\w+) ", w)
            emb = "embedded" if re.search(r"\((field) (Plain|Generic|Base)\)", w) else (kind.group(1) if kind else "object")
            v.append(("name-differs:" + emb, "%s: %s: %s" % (label, ip, w)))
        for w in rep["map_missing"] or []:
            kind = re.search(r"\((\w+) ", w)
            v.append(("not-listed:" + (kind.group(1) if kind else "object"), "%s: %s: %s" % (label, ip, w)))
    # reverse: every listed path and name must map back
    text = []; expect = []
    for ip, ent in sorted(gmap.items()):
        if ip == MODP: continue
        text.append("path %s end" % ent["path"]); expect.append("path %s end" % ip)
    rep_by_ip = {r["import_path"]: r for r in reports}
    for ip, ent in sorted(gmap.items()):
        ml = rep_by_ip.get(ip, {}).get("map_listed") or {}
        for desc, obf in sorted(ml.items()):
            text.append("name %s.%s end" % (ent["path"], obf)); expect.append("name %s.%s end" % (ip, desc.split(" ", 1)[1]))
    pr = g.garble(fl, "reverse", bf + ["."], d, extra_env=env or None, input=("\n".join(text) + "\n").encode())
    got = pr.stdout.decode().split("\n")
    nrev = 0
    for t, e, o in zip(text, expect, got):
        nrev += 1
        if o != e:
            what = "path" if t.startswith("path") else "name"
            if what == "name" and e.rsplit(".", 1)[-1].split(" ")[0] in ("Base", "Plain", "Generic") and ("field " + e.rsplit(".", 1)[-1].split(" ")[0]) in (rep_by_ip.get(e.split(" ")[1].rsplit(".", 1)[0], {}).get("map_listed") or {}):
                what = "embedded"
            v.append(("reverse-mismatch:" + what, "%s: garble reverse turns %r into %r, expected %r" % (label, t, o, e)))
    shutil.rmtree(dd, ignore_errors=True)
    return v, listed, checked, pkgs, nrev
for cfg, (v, listed, checked, pkgs, nrev) in zip(CONFIGS, pmap(one, CONFIGS, workers=4)):
    listed_total += listed; checked_total += checked; pkgs_total += pkgs; reversed_total += nrev
    seen = set()
    for sig, what in v:
        R.violation(sig, what, {"module/" + k: c for k, c in FILES.items()})
R.finish({
    "evaluations": listed_total + reversed_total,
    "distinct_nontrivial": checked_total,
    "rule": "a 3-package module exposing every kind of API object (exported/unexported types, funcs, vars, consts, fields of plain/nested/anonymous/embedded/generic structs, methods, interface methods, aliases, "
            "a build-tagged file) under %d configurations; for each: `garble map`, `garble -debugdir build`, `garble reverse`; the build's names are recovered by pairing original and garbled declarations; "
            "oracle: path and every listed object equal the build, every API-reachable renamed object is listed (independent go/types + objectpath walk), reverse maps every listed path/name back; "
            "distinct_nontrivial = listed objects resolved and compared with the build" % len(CONFIGS),
    "samples": [{"flags": c[0], "env": c[1], "buildflags": c[2]} for c in CONFIGS[:3]],
    "objects_listed": listed_total, "objects_compared_with_build": checked_total, "packages": pkgs_total, "reverse_lines": reversed_total,
}, assumptions=["declaration order and shape are preserved by garble (used to pair original and garbled declarations)", "x/tools objectpath resolves paths on a source-importer type check"], exhaustive=True)
