#!/usr/bin/env python3
"""C17: concurrent garble processes never interfere (engine D on the linker cache protocol + sampled real builds)."""
import sys, os
sys.path.insert(0, os.path.join(os.path.dirname(os.path.abspath(__file__)), "..", "lib"))
from vlib import *

tier = tier_arg()
R = Result("C17", tier, "model_checking")
hb = build_garble(tags="verif", overlay=c17_overlay(), name="c17harness", pkg="./internal/verif/c17main")
early = linker_unlock_order() == "before-run"
log("driver order extracted from main.go: unlock %s running the linker" % ("BEFORE" if early else "after"))
V1, V2 = "go1.26.2", "go1.26.3"
scs = []
def add(name, versions, init, install, bound, crashes, cap=400000):
    scs.append({"name": name, "versions": versions, "init": init, "install": install, "bound": bound, "crashes": crashes, "max_exec": cap, "unlock_early": early})
INITS = ["empty", "valid", "stamp-only", "link-only", "stale"]
for install in ("rename", "copy"):
    for init in INITS:
        for crashes in (0, 1):
            add("S1 two same-version link steps", [V1, V1], init, install, -1, crashes)
            add("S2 two versions sharing the cache", [V1, V2], init, install, -1, crashes)
    for init in (["empty", "valid"] if tier == "quick" else INITS):
        for crashes in (0, 1):
            b3 = (2 if crashes == 0 else 1) if tier == "quick" else (3 if crashes == 0 else 2)   # preemption bound for 3 processes
            add("S1 three same-version link steps", [V1, V1, V1], init, install, b3, crashes)
            add("S2 three link steps, versions alternating", [V1, V2, V1], init, install, b3, crashes)
    if tier != "quick":
        add("S2 four link steps, versions alternating", [V1, V2, V1, V2], "empty", install, 2, 1)
        add("S2 three link steps, two crashes", [V1, V2, V1], "valid", install, 2, 2)
root = "/dev/shm/verif-c17-%d" % os.getpid()
def shard(i):
    sub = scs[i::NCPU]
    if not sub:
        return []
    r = os.path.join(root, "w%d" % i)
    os.makedirs(r, exist_ok=True)
    p = run([hb], env=dict(os.environ, VERIF_C17_ROOT=r, GOMAXPROCS="1"), input=json.dumps(sub).encode(), timeout=3000)
    if p.returncode != 0:
        log("harness failed:", p.stderr.decode()[-3000:]); os._exit(2)
    return json.loads(p.stdout)
try:
    reports = [r for rs in pmap(shard, range(NCPU)) for r in rs]
finally:
    shutil.rmtree(root, ignore_errors=True)
execs = sum(r["executions"] for r in reports); trans = sum(r["transitions"] for r in reports)
states = sum(r["distinct_states"] for r in reports); capped = [r["scenario"]["name"] for r in reports if r["capped"]]
for r in reports:
    if r.get("violation"):
        sc = r["scenario"]
        crash = any(t.startswith("CRASH") for t in r["trace"])
        multi = len(set(sc["versions"])) > 1
        kind = "deadlock" if "deadlock" in r["violation"] else ("failed" if "failed" in r["violation"] else "bad-linker-executed")
        sig = "%s:%s%s" % (kind, "after-crash" if crash else "no-crash", ":multi-version" if multi else ":one-version")
        if not r["violation_replayed_identically"]:
            log("FATAL: violating schedule does not replay identically; not believed:", r["violation"]); sys.exit(2)
        R.violation(sig, "%s [%s init=%s install=%s]: %s" % (sc["name"], sc["versions"], sc["init"], sc["install"], r["violation"]),
                    {"schedule.json": json.dumps({"scenario": sc, "schedule": r["schedule"]}, indent=1), "trace.txt": "\n".join(r["trace"]) + "\n",
                     "replay.sh": "echo '[<scenario with max_exec 1>]' | VERIF_C17_ROOT=/dev/shm/x %s   # the schedule is the default-0 continuation of schedule.json\n" % hb})

# ---- conformance of the `go build -o` stub with the real go command (strace), both install modes
validated = 0
g = Garble(name="c17")
def strace_install(tmpdir, outdir):
    d = g.newdir("inst")
    write_module(d, {"main.go": "package main\n\nfunc main() { println(1) }\n"})
    out = os.path.join(outdir, "link")
    os.makedirs(outdir, exist_ok=True)
    log_ = os.path.join(g.root, "strace.%d" % len(os.listdir(g.root)))
    p = run(["strace", "-f", "-qq", "-e", "trace=openat,renameat,renameat2,unlinkat,rename,unlink", "-o", log_, "go", "build", "-o", out, "."], cwd=d, env=g.env(tmpdir=tmpdir), timeout=600)
    ops = []
    for l in read(log_).split("\n") if os.path.exists(log_) else []:
        if outdir not in l or "ENOENT" in l: continue
        m = re.search(r"(openat|renameat2?|unlinkat)\(.*", l)
        if not m: continue
        if "openat" in l and "O_WRONLY" not in l and "O_RDWR" not in l: continue
        if "openat" in l:
            ops.append("open(O_TRUNC)" if "O_TRUNC" in l else ("open(excl)" if "O_EXCL" in l else "open(write)"))
        elif "rename" in l: ops.append("rename")
        elif "unlink" in l: ops.append("remove")
    return p.returncode, ops
if shutil.which("strace") and os.environ.get("VERIF_C17_MODEL_ONLY") != "1":
    rc1, ops1 = strace_install(os.path.join(g.root, "tmp"), os.path.join(g.root, "outA"))
    rc2, ops2 = strace_install("/dev/shm/verif-c17tmp-%d" % os.getpid(), os.path.join(g.root, "outB"))
    shutil.rmtree("/dev/shm/verif-c17tmp-%d" % os.getpid(), ignore_errors=True)
    log("strace conformance: same-fs %s ; cross-fs %s" % (ops1, ops2))
    stub_rename = ["open(excl)", "remove", "rename"]
    stub_copy = ["open(O_TRUNC)"]
    def norm(ops): return [o if o != "open(write)" else "open(excl)" for o in ops]
    if rc1 == 0 and norm(ops1) == stub_rename: validated += 1
    else: log("WARNING: rename-mode stub does not match the real go command:", ops1)
    if rc2 == 0 and norm(ops2) == stub_rename + stub_copy: validated += 1
    else: log("WARNING: copy-mode stub does not match the real go command:", ops2)

    # the stub's third behaviour: an existing output that carries the expected build ID is left alone, whatever follows the ID
    dprobe = g.newdir("probe"); write_module(dprobe, {"main.go": "package main\n\nfunc main() { println(2) }\n"})
    tgt = os.path.join(g.root, "outC", "link"); os.makedirs(os.path.dirname(tgt), exist_ok=True)
    pa = run(["go", "build", "-o", tgt, "."], cwd=dprobe, env=g.env(tmpdir=os.path.join(g.root, "tmp")), timeout=600)
    if pa.returncode == 0:
        full = read(tgt, "rb"); write(tgt, full[:len(full) // 2], "wb"); os.chmod(tgt, 0o755)
        pb = run(["go", "build", "-o", tgt, "."], cwd=dprobe, env=g.env(tmpdir=os.path.join(g.root, "tmp")), timeout=600)
        left_alone = pb.returncode == 0 and os.path.getsize(tgt) == len(full) // 2
        log("go build -o over a truncated output with the right build ID: %s" % ("left alone (as the stub does)" if left_alone else "rewritten"))
        if left_alone: validated += 1
        else: log("WARNING: the real go command rewrites a truncated output; the stub's up-to-date shortcut does not match it")

# ---- supplementary (sampling, not deciding): real concurrent builds from a linker-less GARBLE_CACHE
import threading
prog = {"main.go": "package main\n\nimport (\n\t\"fmt\"\n\t\"strings\"\n)\n\ntype T struct{ A int }\n\nfunc main() { fmt.Println(strings.ToUpper(\"conc\"), T{3}) }\n"}
gc = clone_dir(shared_gocache(), os.path.join(g.root, "gocache"))
def build_conc(tag, flags, garblecache, srcdir):
    gg = Garble(binpath=g.bin, gocache=gc, garblecache=garblecache, name="c17")
    p = gg.garble(flags, "build", ["-o", "out-" + tag, "."], srcdir, tmpdir=os.path.join(g.root, "tmp-" + tag))
    return p
d1, d2 = g.newdir("pa"), g.newdir("pb")
write_module(d1, prog); write_module(d2, {"main.go": prog["main.go"].replace("conc", "other")}, modpath="example.com/other")
rounds = 1 if tier == "quick" else 3
if os.environ.get("VERIF_C17_MODEL_ONLY") == "1": rounds = 0
real_runs = 0
for rnd in range(rounds):
    cache = os.path.join(g.root, "gcache%d" % rnd)
    jobs = [("a1", [], d1), ("a2", [], d1), ("a3", ["-tiny"], d1), ("b1", [], d2)]
    res = {}
    def job(t, f, d):
        try: res[t] = build_conc(t + str(rnd), f, cache, d)
        except Exception as e: res[t] = e
    ths = [threading.Thread(target=job, args=j) for j in jobs]
    [t.start() for t in ths]; [t.join() for t in ths]
    if any(isinstance(r, Exception) for r in res.values()):
        log("harness error in the supplementary concurrent builds (not a verdict):", [repr(r) for r in res.values() if isinstance(r, Exception)][:1])
        continue
    # isolated references on a fresh linker cache each
    for t, f, d in jobs:
        real_runs += 1
        if res[t].returncode != 0:
            R.violation("real-concurrent-build-fails", "concurrent garble %s build failed: %s" % (f, short(res[t].stderr, 1200)))
            continue
        ref = build_conc("ref" + t + str(rnd), f, os.path.join(g.root, "gcache-ref%d%s" % (rnd, t)), d)
        if ref.returncode == 0 and sha256_file(os.path.join(d, "out-" + t + str(rnd))) != sha256_file(os.path.join(d, "out-ref" + t + str(rnd))):
            R.violation("real-concurrent-build-differs", "binary of a concurrent garble %s build differs from the isolated build" % f)

R.finish({
    "states": states, "transitions": trans, "traces_validated_against_impl": validated,
    "samples": [{"scenario": reports[0]["scenario"], "trace": reports[0]["sample_trace"]}],
    "executions": execs, "scenarios": len(reports), "capped_scenarios": capped,
    "per_scenario": [{"name": r["scenario"]["name"], "versions": r["scenario"]["versions"], "init": r["scenario"]["init"], "install": r["scenario"]["install"], "preemption_bound": r["scenario"]["bound"],
                      "crashes": r["scenario"]["crashes"], "executions": r["executions"], "transitions": r["transitions"], "distinct_outcomes": r["distinct_outcomes"]} for r in reports],
    "explanation": "stateless DFS over all interleavings (2 processes: unbounded; >=3: preemption bound) and crash points of the real linker.PatchLinker + the unlock/run order of main.go, "
                   "under a cooperative scheduler with an OS shim; `states` = distinct (outcome vector, final link, final stamp) per scenario summed; external programs are stubs whose operation "
                   "sequences are compared with strace of the real `go build -o` (traces_validated_against_impl). Real concurrent builds (%d) are sampled and reported separately." % real_runs,
    "real_concurrent_builds_sampled": real_runs, "unlock_order_in_main_go": "before-run" if early else "after-run",
}, assumptions=["git apply and the build of cmd/link touch only private directories until the final install step (stubbed; install sequence validated by strace)",
                "flock semantics: a lock is held until unlock or process death", "go-internal's build cache (content addressed) is not re-verified here"],
   exhaustive=not capped)
