#!/usr/bin/env python3
"""C01: obfuscated builds behave like regular builds (engine A)."""
import sys, os
sys.path.insert(0, os.path.join(os.path.dirname(os.path.abspath(__file__)), "..", "lib"))
from vlib import *
from enga import *
import catalogue

tier = tier_arg()
R = Result("C01", tier, "exploration")
g = Garble(name="c01")
S1, S2 = "-seed=AAAAAAAAAAA", "-seed=c29tZXNlZWR2YWx1ZQ"
if tier == "quick":
    CONFIGS = [([], None), (["-literals", "-tiny", S1], None)]
    depth = 2
else:
    CONFIGS = [([], None), (["-tiny"], None), (["-literals"], None), ([S1], None), ([S2], None), (["-literals", "-tiny", S1], None),
               ([], MOD), (["-literals"], MOD + "/lib/a," + MOD + "/lib/b.c")]
    depth = 3
cat = catalogue.all_units()
chains = []
for dpt in range(1, depth + 1):
    cu = chain_units(dpt)
    if dpt == 3:
        # depth 3: declaring constructors only (the others were covered at depth 2 in every position)
        cu = chain_units(3, constructors=["alias", "embed", "embedptr", "generic", "genericembed", "pointer"])
    chains += cu
allunits = number(cat + chains)
log("units: %d catalogue + %d type-algebra chains" % (len(cat), len(chains)))
PACK = 150
packs = [allunits[i:i + PACK] for i in range(0, len(allunits), PACK)]
jobs = [(pi, p, fl, gg) for pi, p in enumerate(packs) for fl, gg in CONFIGS]
dl = Deadline(1500 if tier == "quick" else 6000)
done = [0]; runs = [0]; rejected = [0]
def job(j):
    pi, p, fl, gg = j
    if dl.expired():
        return None
    env = {"GOGARBLE": gg} if gg else None
    r = build_pack(g, p, fl, env)
    return (j, r)
results = pmap(job, jobs, workers=6)
failing = {}
for res in results:
    if res is None:
        continue
    (pi, p, fl, gg), r = res
    done[0] += 1; runs[0] += r.runs
    cfg = " ".join(fl) + (" GOGARBLE=" + gg if gg else "")
    if not r.plain_ok:
        log("generator bug: plain build fails", short(r.garble_stderr, 2000)); sys.exit(2)
    if r.build_ok is False:
        env = {"GOGARBLE": gg} if gg else None
        small = bisect_build_failure(g, p, fl, env)
        names = [u.name for _, u in small]
        r2 = build_pack(g, small, fl, env, argvs=[])
        for n, u in small[:3]:
            failing.setdefault(("build-fails", u.name), []).append((cfg, short(r2.garble_stderr, 1500), small))
    for n, desc in r.bad_units.items():
        u = dict(p).get(n)
        failing.setdefault(("output-differs", u.name if u else "exit-status"), []).append((cfg, desc, [(n, u)] if u else p))
for (kind, name), occ in sorted(failing.items()):
    cfgs = sorted(set(o[0] for o in occ))
    files = assemble(occ[0][2], header_main=PTR_HELPER)
    rf = {"module/" + k: v for k, v in files.items()}
    rf["module/go.mod"] = "module %s\n\ngo 1.26\n" % MOD
    rf["replay.sh"] = "cd module && go build -o plain . && garble %s build -o out . && ./plain a > p.txt; ./out a > g.txt; diff p.txt g.txt\n" % cfgs[0]
    R.violation("%s:%s" % (kind, name), "unit %r under configs %s: %s" % (name, cfgs, occ[0][1]), rf)

# ---- special programs: -ldflags=-X, garble run, garble test
special = 0
def ldx_prog():
    return {
        "main.go": "package main\n\nimport (\n\t\"fmt\"\n\t\"example.com/ldx/dep\"\n)\n\nvar version = \"default-version\"\nvar unset = \"stays-default\"\nvar noInit string\n\nfunc main() { fmt.Println(version, unset, noInit, dep.Get(), dep.Exported) }\n",
        "dep/dep.go": "package dep\n\nvar hidden = \"dep-default\"\nvar Exported = \"exp-default\"\n\nfunc Get() string { return hidden }\n"}
for fl in ([[], ["-literals"]] if tier == "quick" else [[], ["-literals"], ["-tiny", S1], ["-literals", S1]]):
    for xi, xf in enumerate(["-X=main.version=v1.2.3 -X=main.noInit=ni -X=example.com/ldx/dep.hidden=h2 -X=example.com/ldx/dep.Exported=e2",
               "-X main.version=other"]):
        d = g.newdir("ldx")
        files = ldx_prog()
        files["main.go"] += "// variant %d %s\n" % (xi, "".join(fl))   # distinct source per ldflags value (C06 is a separate property)
        write_module(d, files, modpath="example.com/ldx")
        p0 = g.go(["build", "-o", "plain", "-ldflags=" + xf, "."], d)
        p = g.garble(fl, "build", ["-o", "out", "-ldflags=" + xf, "."], d)
        special += 1
        if p0.returncode != 0:
            log("generator bug", p0.stderr.decode()); sys.exit(2)
        if p.returncode != 0:
            R.violation("ldflags-X:build-fails", "garble %s build -ldflags=%r fails: %s" % (fl, xf, short(p.stderr)), {"module/" + k: v for k, v in files.items()})
        elif exec_bin(d + "/out").stdout != exec_bin(d + "/plain").stdout:
            R.violation("ldflags-X:output", "garble %s build -ldflags=%r: %r vs plain %r" % (fl, xf, exec_bin(d + "/out").stdout, exec_bin(d + "/plain").stdout),
                        {"module/" + k: v for k, v in files.items()})
# garble run
small = number(cat[:20])
for fl in ([[]] if tier == "quick" else [[], ["-literals"], ["-tiny"]]):
    d = g.newdir("run")
    write_module(d, assemble(small, header_main=PTR_HELPER), modpath=MOD)
    p0 = g.go(["run", "."], d)
    p = g.garble(fl, "run", ["."], d)
    special += 1
    if p0.returncode != p.returncode or p0.stdout != p.stdout:
        R.violation("run:differs", "garble %s run . exits %d, go run exits %d; %s" % (fl, p.returncode, p0.returncode, short(p.stderr)))
# garble test: internal + external test packages, TestMain, examples
def test_mod():
    return {
        "lib/lib.go": "package lib\n\nimport \"strings\"\n\ntype Thing struct{ name string }\n\nfunc New(n string) *Thing { return &Thing{name: n} }\n\nfunc (t *Thing) Shout() string { return strings.ToUpper(t.name) }\n\nfunc helper(x int) int { return x * 2 }\n",
        "lib/lib_test.go": "package lib\n\nimport (\n\t\"os\"\n\t\"testing\"\n)\n\nvar setup = 0\n\nfunc TestMain(m *testing.M) {\n\tsetup = 5\n\tos.Exit(m.Run())\n}\n\nfunc TestHelper(t *testing.T) {\n\tif helper(2) != 4 || setup != 5 {\n\t\tt.Fatal(\"bad\")\n\t}\n}\n\nfunc TestSub(t *testing.T) {\n\tfor _, n := range []string{\"a\", \"b\"} {\n\t\tt.Run(n, func(t *testing.T) {\n\t\t\tif New(n).Shout() == \"\" {\n\t\t\t\tt.Fail()\n\t\t\t}\n\t\t})\n\t}\n}\n\nfunc TestSkipped(t *testing.T) { t.Skip(\"skipping\") }\n\nfunc TestFailsOnPurpose(t *testing.T) {\n\tif os.Getenv(\"VERIF_FAIL\") == \"1\" {\n\t\tt.Error(\"failing as asked\")\n\t}\n}\n\nfunc BenchmarkHelper(b *testing.B) {\n\tfor i := 0; i < b.N; i++ {\n\t\thelper(i)\n\t}\n}\n",
        "lib/ext_test.go": "package lib_test\n\nimport (\n\t\"fmt\"\n\t\"testing\"\n\n\t\"example.com/tm/lib\"\n)\n\nfunc TestExternal(t *testing.T) {\n\tif lib.New(\"x\").Shout() != \"X\" {\n\t\tt.Fatal(\"bad\")\n\t}\n}\n\nfunc ExampleNew() {\n\tfmt.Println(lib.New(\"hey\").Shout())\n\t// Output: HEY\n}\n",
        "main.go": "package main\n\nimport (\n\t\"fmt\"\n\t\"example.com/tm/lib\"\n)\n\nfunc main() { fmt.Println(lib.New(\"m\").Shout()) }\n",
        "main_test.go": "package main\n\nimport \"testing\"\n\nfunc TestMainPkg(t *testing.T) { main() }\n"}
def verdicts(out):
    lines = []
    for l in out.decode(errors="replace").split("\n"):
        l = re.sub(r"\(\d+\.\d+s\)", "(T)", l)
        l = re.sub(r"\t\d+\.\d+s$", "\tT", l)
        l = re.sub(r"\t\(cached\)$", "\tT", l)
        if re.match(r"\s*(--- |=== RUN|ok|FAIL|PASS|\?|exit status)", l):
            lines.append(l)
    return lines
for fl in ([[]] if tier == "quick" else [[], ["-literals"], ["-tiny", S1]]):
    for failenv in ("0", "1"):
        d = g.newdir("test")
        write_module(d, test_mod(), modpath="example.com/tm")
        p0 = g.go(["test", "-v", "-count=1", "./..."], d, extra_env={"VERIF_FAIL": failenv})
        p = g.garble(fl, "test", ["-v", "-count=1", "./..."], d, extra_env={"VERIF_FAIL": failenv})
        special += 1
        if verdicts(p0.stdout) != verdicts(p.stdout) or p0.returncode != p.returncode:
            R.violation("test:verdicts", "garble %s test (VERIF_FAIL=%s) exit %d vs go test exit %d\n%s\n--- vs ---\n%s\n%s" % (
                fl, failenv, p.returncode, p0.returncode, "\n".join(verdicts(p.stdout)), "\n".join(verdicts(p0.stdout)), short(p.stderr)),
                {"module/" + k: v for k, v in test_mod().items()})

R.finish({
    "evaluations": done[0] + special,
    "distinct_nontrivial": len(allunits),
    "rule": "every unit of the catalogue (all parameter tuples) and every expressible chain of <=%d type constructors x placement, packed %d per module, "
            "built under every configuration of the grid %s, each binary run on argument vectors %s; distinct_nontrivial = distinct program units judged; "
            "oracle: per-unit stdout sections and exit status equal the plain `go build -trimpath` binary" % (depth, PACK, [(" ".join(f), gg) for f, gg in CONFIGS], ARGVS),
    "samples": [u.name for _, u in allunits[:5]] + [u.name for _, u in allunits[-3:]],
    "modules_built": done[0], "modules_planned": len(jobs), "binary_runs": runs[0], "special_programs": special,
    "units_catalogue": len(cat), "units_chains": len(chains),
}, assumptions=["the plain Go toolchain is the reference semantics", "generated programs are deterministic and print no names/positions"],
   exhaustive=not dl.hit)
