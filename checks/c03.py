#!/usr/bin/env python3
"""C03: builds are reproducible bit for bit (engine A environment grid + engine B choice points at the unit seam)."""
import sys, os
sys.path.insert(0, os.path.join(os.path.dirname(os.path.abspath(__file__)), "..", "lib"))
sys.path.insert(0, os.path.dirname(os.path.abspath(__file__)))
from vlib import *
from caches import *
import c11_corpus

tier = tier_arg()
R = Result("C03", tier, "exploration")
g = Garble(name="c03")
MODP = "example.com/c03"
P1 = {
    "main.go": "package main\n\nimport (\n\t\"encoding/json\"\n\t\"fmt\"\n\t\"os\"\n\n\t\"%s/dump\"\n\t\"%s/lib\"\n)\n\ntype Doc struct {\n\tTitle string\n\tItems []lib.Item\n\tmeta  map[string]int\n}\n\nfunc main() {\n\td := Doc{\"a reproducible literal title\", lib.Items(3), map[string]int{\"k\": 1}}\n\tb, _ := json.Marshal(d)\n\tfmt.Println(string(b), lib.Sum(d.Items), len(os.Args), lib.Generic([]string{\"x\", \"yy\"}), dump.JSON(d))\n}\n" % (MODP, MODP),
    "dump/dump.go": "package dump\n\nimport \"encoding/json\"\n\nfunc JSON(v any) string {\n\tb, _ := json.Marshal(v)\n\treturn string(b)\n}\n",
    "lib/lib.go": "package lib\n\nimport (\n\t\"reflect\"\n\t\"sort\"\n\t\"strings\"\n)\n\ntype Item struct {\n\tName  string\n\tCount int\n\ttags  []string\n}\n\nvar registry = map[string]Item{\"one item literal\": {\"one\", 1, nil}, \"two item literal\": {\"two\", 2, nil}, \"three item literal\": {\"three\", 3, nil}}\n\nfunc Items(n int) []Item {\n\tvar out []Item\n\tfor _, it := range registry {\n\t\tout = append(out, it)\n\t}\n\tsort.Slice(out, func(i, j int) bool { return out[i].Count < out[j].Count })\n\treturn out[:n]\n}\n\nfunc Sum(items []Item) string {\n\tt := reflect.TypeOf(items).Elem().Name()\n\tfor _, it := range items {\n\t\tt += strings.ToUpper(it.Name)\n\t}\n\treturn t\n}\n\nfunc Generic[T any](xs []T) int { return len(xs) + int(AsmTwice(int64(len(xs)))) }\n\nfunc AsmTwice(x int64) int64\n",
    "lib/twice_amd64.s": "#include \"textflag.h\"\n\nTEXT ·AsmTwice(SB),NOSPLIT,$0-16\n\tMOVQ x+0(FP), AX\n\tADDQ AX, AX\n\tMOVQ AX, ret+8(FP)\n\tRET\n",
}
CF_EXTRA_IMPORTS = tuple(os.environ.get("VERIF_C03_CF_IMPORTS", "io").split(","))
def cf_prog(params):
    keep = ("cfLoopSum", "cfNested", "cfIfChain", "cfSwitchFall", "cfRangeSlice", "cfFib", "cfTypeSwitch", "cfMapOps", "cfStringBuild", "cfBubble")
    cf = c11_corpus.CF
    fns = re.findall(r"//garble:controlflow @P@\nfunc (?:\([^)]*\) )?(\w+)", cf)
    for f in fns:
        if f not in keep:
            cf = re.sub(r"//garble:controlflow @P@\n(func (?:\([^)]*\) )?%s\b)" % f, r"\1", cf)
    # the rewritten file may need packages that the program reaches only indirectly; garble then takes their archives from the
    # action graph's object directories, which exist only when the package is compiled in the same build (with a warm GOCACHE
    # the build is refused: "could not import ... $WORK/bNNN/_pkg_.a"). Importing the usual suspects directly keeps this
    # determinism comparison from being vacuous.
    extra = "package main\n\nimport (\n" + "".join('\t_ "%s"\n' % x for x in CF_EXTRA_IMPORTS) + ")\n"
    return {"support.go": c11_corpus.SUPPORT, "cf.go": cf.replace("@P@", params), "imports.go": extra}
S = "-seed=AAAAAAAAAAA"
def build(tag, files, modp, flags, env, srcdir=None, caches=None, p=None, tmp=None, pkg="."):
    root = os.path.join(g.root, tag)
    src = srcdir or os.path.join(root, "src")
    write_module(src, files, modpath=modp)
    gg = Garble(binpath=g.bin, gocache=caches[0], garblecache=caches[1], name="c03")
    args = ["-o", os.path.join(root, "out")] + (["-p", str(p)] if p else []) + [pkg]
    os.makedirs(root, exist_ok=True)
    pr = gg.garble(flags, "build", args, src, extra_env=env or None, tmpdir=tmp or os.path.join(root, "tmp"))
    if pr.returncode != 0:
        return None, short(pr.stderr, 800)
    return (sha256_file(os.path.join(root, "out")) if pkg == "." else "lib-only"), None
progs = [("plain", P1, MODP, None)]
configs = [("default", [], {}), ("literals-seed", ["-literals", S], {})]
if tier != "quick":
    configs += [("tiny", ["-tiny"], {}), ("literals", ["-literals"], {}), ("seed", [S], {})]
builds = 0; pairs = 0; hashes = set()
for cname, fl, env in configs:
    base = ensure_base(g, fl, env or None)
    def fresh(tag): return compose(os.path.join(g.root, "caches-" + tag), [base])
    for pname, files, modp, _ in progs:
        tag0 = "%s-%s" % (pname, cname)
        jobs = {}
        def variant(name, **kw):
            jobs[name] = kw
        variant("cold-1"); variant("cold-2")
        variant("p1", p=1); variant("p16", p=16)
        variant("longdir", srcdir=os.path.join(g.root, tag0 + "-a-much-longer-directory-name-for-the-source-tree", "nested", "src"))
        variant("tmp-in-pwd", tmp_in_pwd=True)
        variant("tmp-shm", tmp="/dev/shm/verif-c03-%d-%s" % (os.getpid(), tag0))
        if tier != "quick":
            variant("p4", p=4)
        def runv(name):
            kw = dict(jobs[name]); tag = tag0 + "-" + name
            caches = fresh(tag)
            srcdir = kw.pop("srcdir", None) or os.path.join(g.root, tag, "src")
            tmp = kw.pop("tmp", None)
            if kw.pop("tmp_in_pwd", False): tmp = os.path.join(srcdir, "tmpdir")
            h, err = build(tag, files, modp, fl, env, srcdir=srcdir, caches=caches, tmp=tmp, **kw)
            if tmp and tmp.startswith("/dev/shm"): shutil.rmtree(tmp, ignore_errors=True)
            res = {name: (h, err)}
            if name == "cold-1":
                # warm rebuild in the same caches, and a rebuild after building the dependency alone first
                h2, e2 = build(tag, files, modp, fl, env, srcdir=srcdir, caches=caches)
                res["warm-rebuild"] = (h2, e2)
            if name == "cold-2":
                c2 = fresh(tag + "-depsfirst")
                build(tag + "-depsfirst", files, modp, fl, env, caches=c2, pkg="./lib")
                res["deps-first"] = build(tag + "-depsfirst", files, modp, fl, env, caches=c2)
                # dependencies built first, then garble's own cache entries lost, then the whole program
                c3 = fresh(tag + "-depsfirst-nogc")
                build(tag + "-depsfirst-nogc", files, modp, fl, env, caches=c3, pkg="./dump")
                build(tag + "-depsfirst-nogc", files, modp, fl, env, caches=c3, pkg="./lib")
                shutil.rmtree(os.path.join(c3[1], "build"), ignore_errors=True)
                res["deps-first-garble-cache-lost"] = build(tag + "-depsfirst-nogc", files, modp, fl, env, caches=c3)
            return res
        out = {}
        for r in pmap(runv, list(jobs), workers=4): out.update(r)
        builds += len(out)
        ref = out["cold-1"][0]
        if ref is None:
            R.violation("build-fails:" + cname, "garble %s build fails: %s" % (fl, out["cold-1"][1])); continue
        hashes.add(ref)
        for name, (h, err) in sorted(out.items()):
            if name == "cold-1": continue
            pairs += 1
            if h is None:
                R.violation("build-fails:%s:%s" % (cname, name), "garble %s build (%s) fails: %s" % (fl, name, err))
            elif h != ref:
                R.violation("binary-differs:" + name, "program %s flags %s: the %s build differs from the cold baseline build" % (pname, fl, name),
                            {"module/" + k: v for k, v in files.items()})
# ---- control flow through the CLI: same seed, independent cold builds
base_cf = ensure_base(g, [S], {"GARBLE_EXPERIMENTAL_CONTROLFLOW": "1"})
cf_cli = {}
# two parameter sets: without trash blocks (must be deterministic: any difference is a violation) and with them (the
# trash generator's dependence on map order and on the global math/rand is a recorded finding; its builds are often refused)
for cfname, cfp in (("no-trash", "junk_jumps=2 flatten_passes=1 flatten_hardening=xor,delegate_table"),
                    ("trash", "junk_jumps=2 flatten_passes=1 flatten_hardening=xor,delegate_table trash_blocks=2")):
    def cfbuild(i):
        return build("cf-%s-%d" % (cfname, i), cf_prog(cfp), "cfcorpus", [S], {"GARBLE_EXPERIMENTAL_CONTROLFLOW": "1"}, caches=compose(os.path.join(g.root, "caches-cf-%s-%d" % (cfname, i)), [base_cf]))
    cfh = pmap(cfbuild, range(3 if tier == "quick" else 6), workers=3)
    builds += len(cfh)
    if any(h is None for h, _ in cfh):
        cf_cli[cfname] = "refused"
        log("control-flow CLI build (%s) refused by garble:" % cfname, [e for h, e in cfh if h is None][:1])
    else:
        cf_cli[cfname] = "%d builds, %d distinct binaries" % (len(cfh), len(set(h for h, _ in cfh)))
        if len(set(h for h, _ in cfh)) > 1:
            R.violation("ctrlflow:cli-builds-differ" + ("" if cfname == "trash" else ":" + cfname), "GARBLE_EXPERIMENTAL_CONTROLFLOW=1 garble %s build [%s]: %d independent cold builds gave %d different binaries" % (S, cfp, len(cfh), len(set(h for h, _ in cfh))),
                        {"module/" + k: v for k, v in cf_prog(cfp).items()})
# ---- engine B: scripted map-iteration worlds. garble is rebuilt with a toolchain whose runtime takes every map hash seed and
# iteration offset from a deterministic sequence selected by VERIF_MAPWORLD; each world is replayable. The binary must not
# depend on the world.
gmw = Garble(binpath=build_garble_mapworld(), name="c03")
WORLDS = list(range(1, 5 if tier == "quick" else 17))
world_builds = 0
def world_build(job):
    tag, files, modp, fl, env, w = job
    base_w = ensure_base(gmw, fl, env or None)
    caches = compose(os.path.join(g.root, "caches-mw-%s-%d" % (tag, w)), [base_w])
    root = os.path.join(g.root, "mw-%s-%d" % (tag, w)); src = os.path.join(root, "src")
    write_module(src, files, modpath=modp)
    gg = Garble(binpath=gmw.bin, gocache=caches[0], garblecache=caches[1], name="c03")
    pr = gg.garble(fl, "build", ["-o", os.path.join(root, "out"), "."], src, extra_env=dict(env or {}, VERIF_MAPWORLD=str(w)), tmpdir=os.path.join(root, "tmp"))
    return tag, w, (sha256_file(os.path.join(root, "out")) if pr.returncode == 0 else None), short(pr.stderr, 400)
CFENV = {"GARBLE_EXPERIMENTAL_CONTROLFLOW": "1"}
wjobs = [("plain", P1, MODP, [], {}, w) for w in WORLDS]
wjobs += [("ctrlflow-hardening", cf_prog("junk_jumps=2 flatten_passes=2 flatten_hardening=xor,delegate_table"), "cfcorpus", [S], CFENV, w) for w in WORLDS[:3 if tier == "quick" else 8]]
if tier != "quick":
    wjobs += [("literals", P1, MODP, ["-literals", S], {}, w) for w in WORLDS]
wres = {}
for tag, w, h, err in pmap(world_build, wjobs, workers=4):
    world_builds += 1
    wres.setdefault(tag, {})[w] = (h, err)
for tag, byw in wres.items():
    hs = set(h for h, _ in byw.values())
    if None in hs:
        if tag.startswith("ctrlflow"): log("map-world build rejected for", tag, [e for h, e in byw.values() if h is None][:1])
        else: R.violation("map-world-build-fails:" + tag, "build fails in a scripted map world: %s" % [e for h, e in byw.values() if h is None][:1])
    elif len(hs) > 1:
        groups = {}
        for w, (h, _) in byw.items(): groups.setdefault(h, []).append(w)
        R.violation("depends-on-map-order:" + tag, "program %s: the binary depends on garble's map iteration order: worlds %s give %d different binaries (replay: VERIF_MAPWORLD=<w> with the map-world garble build)" % (
            tag, sorted(groups.values()), len(hs)))
# ---- engine B at the unit seam: the obfuscators must depend on the seeded generator only
hb = build_hooked()
FILES = {"support.go": c11_corpus.SUPPORT, "cf.go": c11_corpus.CF}
def params(bs, jj, fp, fh, tb):
    p = "block_splits=%s junk_jumps=%s flatten_passes=%s trash_blocks=%s" % (bs, jj, fp, tb)
    return p + (" flatten_hardening=" + fh if fh else "")
SETTINGS = {"flatten": params(0, 0, 1, "", 0), "junk": params(0, 3, 1, "", 0), "xor": params(0, 0, 1, "xor", 0), "delegate_table": params(0, 0, 1, "delegate_table", 0), "trash": params(0, 0, 1, "", 3)}
REPEAT = 6 if tier == "quick" else 16
variants = []
for sname, pr in SETTINGS.items():
    for gs in (1, 2):
        for rep in range(REPEAT if gs == 1 else 1):
            variants.append({"id": "%s_g%d_r%d" % (sname, gs, rep), "params": pr, "base": "prng:1", "over": {}, "gseed": gs, "only": "", "exclude": ["cfGenericMax"], "record": False})
def hrun(v):   # one process per variant: map iteration order is re-randomised per process
    return run_mode(hb, "c11", input=json.dumps({"files": FILES, "outdir": os.path.join(g.root, "cfv"), "variants": [v]}).encode(), timeout=3000)[0]
res = {r["id"]: r for r in pmap(hrun, variants)}
unit_runs = len(res)
for sname, pr in SETTINGS.items():
    d1, d2 = res["%s_g1_r0" % sname].get("digest"), res["%s_g2_r0" % sname].get("digest")
    reps = set(res["%s_g1_r%d" % (sname, r)].get("digest") for r in range(REPEAT))
    if len(reps) > 1:
        R.violation("ctrlflow:unstable-output:" + sname, "controlflow [%s]: %d runs under the same scripted generator and the same global seed produced %d different outputs (map iteration order)" % (pr, REPEAT, len(reps)))
    elif d1 != d2:
        R.violation("ctrlflow:global-rand:" + sname, "controlflow [%s]: the obfuscated code changes when only the seed of the process-global math/rand changes (the seeded generator is not the only source of randomness)" % pr)
R.finish({
    "evaluations": builds + unit_runs,
    "distinct_nontrivial": pairs,
    "rule": "CLI grid: a 2-package program (reflection, literals, generics, assembly) under %d flag sets; around a baseline build whose user packages are cold: a second independent cold build, warm rebuild, dependency built first, -p 1/16, "
            "a longer source directory, TMPDIR inside $PWD and on another file system; oracle sha256 equality with the baseline; control flow: independent cold CLI builds with one seed; unit seam: ctrlflow.Obfuscate under one scripted generator, "
            "process-global math/rand seeded with 2 values (deterministic detection of a dependence on it) and %d repetitions in fresh processes; scripted map worlds: the CLI builds repeated with a garble binary whose runtime draws every map seed / iteration offset from a replayable sequence (world 1..N), binaries must be equal across worlds; distinct_nontrivial = binary pairs compared" % (len(configs), REPEAT),
    "samples": [{"config": c[0], "flags": c[1]} for c in configs] + [{"ctrlflow_setting": k, "params": v} for k, v in list(SETTINGS.items())[:2]],
    "ctrlflow_cli_comparisons": cf_cli, "cli_builds": builds, "map_world_builds": world_builds, "map_worlds": len(WORLDS), "distinct_baseline_binaries": len(hashes), "unit_seam_runs": unit_runs,
}, assumptions=["the standard library is warm in every build of the grid (the fully cold case is covered by the base-cache construction itself)", "map iteration orders are sampled, not enumerated (no order-controlling instrumentation was built)"], exhaustive=False)
