#!/usr/bin/env python3
"""C04: garble reverse restores obfuscated traces exactly (engine A: call-chain generator)."""
import sys, os, itertools
sys.path.insert(0, os.path.join(os.path.dirname(os.path.abspath(__file__)), "..", "lib"))
from vlib import *

tier = tier_arg()
R = Result("C04", tier, "exploration")
g = Garble(name="c04")
MODP = "example.com/c04"
KINDS = ["func", "valmethod", "ptrmethod", "generic", "genmethod", "closure", "goroutine", "deferred", "deferclosure", "iface", "methexpr", "otherfile", "otherpkg", "twoonline", "literalargs"]
RISKY = ["multiline", "iife"]   # shapes whose frames are attributed to a later line of the same call expression
def frame(kind, name, nxt):
    """returns (decls, file, call statement). `nxt` is the statement executed inside the frame."""
    if kind == "func": return "func %s() {\n\t%s\n}\n" % (name, nxt), "a", "%s()" % name
    if kind == "otherfile": return "func %s() {\n\t%s\n}\n" % (name, nxt), "b", "%s()" % name
    if kind == "valmethod": return "type T%s struct{ n int }\n\nfunc (t T%s) Run() {\n\t%s\n}\n" % (name, name, nxt), "a", "t%s := T%s{1}\n\tt%s.Run()" % (name, name, name)
    if kind == "ptrmethod": return "type T%s struct{ n int }\n\nfunc (t *T%s) run() {\n\t%s\n}\n" % (name, name, nxt), "b", "t%s := &T%s{1}\n\tt%s.run()" % (name, name, name)
    if kind == "generic": return "func %s[T any](v T) {\n\t%s\n}\n" % (name, nxt), "a", "%s[int](3)" % name
    if kind == "genmethod": return "type G%s[T any] struct{ v T }\n\nfunc (g G%s[T]) Do() {\n\t%s\n}\n" % (name, name, nxt), "a", "g%s := G%s[string]{\"v\"}\n\tg%s.Do()" % (name, name, name)
    if kind == "closure": return "func %s() {\n\tinner := func() {\n\t\t%s\n\t}\n\tinner()\n}\n" % (name, nxt), "a", "%s()" % name
    if kind == "goroutine": return "func %s() {\n\tdone := make(chan struct{})\n\tgo %sworker(done)\n\t<-done\n}\n\nfunc %sworker(done chan struct{}) {\n\t%s\n\tclose(done) // not deferred: a panicking worker must not let main exit before the trace is printed\n}\n" % (name, name, name, nxt), "b", "%s()" % name
    if kind == "deferred": return "func %s() {\n\tdefer %sdeferred()\n}\n\nfunc %sdeferred() {\n\t%s\n}\n" % (name, name, name, nxt), "a", "%s()" % name
    if kind == "deferclosure": return "func %s() {\n\tdefer func() {\n\t\t%s\n\t}()\n}\n" % (name, nxt), "a", "%s()" % name
    if kind == "iface": return "type I%s interface{ Act() }\n\ntype i%s struct{}\n\nfunc (i%s) Act() {\n\t%s\n}\n" % (name, name, name, nxt), "b", "var v%s I%s = i%s{}\n\tv%s.Act()" % (name, name, name, name)
    if kind == "methexpr": return "type E%s struct{}\n\nfunc (E%s) Go(n int) {\n\t%s\n}\n" % (name, name, nxt), "a", "E%s.Go(E%s{}, 2)" % (name, name)
    if kind == "otherpkg": return "func %s() {\n\tcb := func() {\n\t\t%s\n\t}\n\tlib.Through(cb)\n}\n" % (name, nxt), "a", "%s()" % name
    if kind == "twoonline": return "func %s(x int) int {\n\tif x == 7 {\n\t\t%s\n\t}\n\treturn x\n}\n" % (name, nxt), "a", "sink(%s(1) + %s(7))" % (name, name)
    if kind == "literalargs": return "func %s(s string, b []byte) {\n\tif len(s) > 0 {\n\t\t%s\n\t}\n}\n" % (name, nxt), "b", "%s(\"a literal argument long enough\", []byte(\"more literal bytes here\"))" % name
    if kind == "multiline": return "type M%s struct{}\n\nfunc (m M%s) Chain(n int) M%s {\n\tif n == 2 {\n\t\t%s\n\t}\n\treturn m\n}\n" % (name, name, name, nxt), "a", "m%s := M%s{}\n\tm%s.\n\t\tChain(1).\n\t\tChain(\n\t\t\t2)" % (name, name, name)
    if kind == "iife": return "func %s() {\n\tfunc() {\n\t\tsink(1)\n\t\t%s\n\t}()\n}\n" % (name, nxt), "a", "%s()" % name
TERMS = {"stack": "os.Stdout.Write(debug.Stack())", "panic": "panic(\"boom\")",
         "caller": "for i := 0; i < 6; i++ {\n\t\t\tpc, file, line, ok := runtime.Caller(i)\n\t\t\tif !ok {\n\t\t\t\tbreak\n\t\t\t}\n\t\t\tfmt.Println(\"frame\", runtime.FuncForPC(pc).Name(), file, line)\n\t\t}"}
def gen(chains):
    files = {"a": [], "b": []}
    cases = []
    for ci, (kinds, term) in enumerate(chains):
        nxt = TERMS[term]
        call = None
        for depth in range(len(kinds) - 1, -1, -1):
            name = "c%dd%d" % (ci, depth)
            decl, f, call = frame(kinds[depth], name, nxt)
            files[f].append(decl)
            nxt = call
        cases.append("\tcase %d:\n\t\t%s\n" % (ci, call))
    hdr = "package main\n\nimport (\n\t\"fmt\"\n\t\"os\"\n\t\"runtime\"\n\t\"runtime/debug\"\n\t\"strconv\"\n\n\t\"%s/lib\"\n)\n\nvar _ = fmt.Sprint\nvar _ = os.Args\nvar _ = runtime.Caller\nvar _ = debug.Stack\nvar _ = lib.Through\nvar _ = strconv.Itoa\n\n" % MODP
    main = hdr + "var total int\n\nfunc sink(n int) { total += n }\n\nfunc init() {\n\tif len(os.Args) > 1 && os.Args[1] == \"init\" {\n\t\tinitChain()\n\t}\n}\n\nfunc initChain() {\n\tos.Stdout.Write(debug.Stack())\n}\n\nfunc main() {\n\tn, _ := strconv.Atoi(os.Args[1])\n\tswitch n {\n" + "".join(cases) + "\t}\n}\n"
    return {"main.go": main, "a.go": hdr + "\n".join(files["a"]), "sub/b.go": None,
            "b.go": hdr + "\n".join(files["b"]),
            "lib/lib.go": "package lib\n\nfunc Through(f func()) {\n\tinner(f)\n}\n\nfunc inner(f func()) { f() }\n"}
chains = [((k,), "stack") for k in KINDS + RISKY]
chains += [((k,), "panic") for k in ("func", "ptrmethod", "deferred", "otherpkg")]   # a panic inside a goroutine prints the other goroutines in scheduling-dependent states
chains += [((k,), "caller") for k in ("func", "valmethod", "closure", "generic")]
chains += [((a, b), "stack") for a in KINDS for b in KINDS]
if tier != "quick":
    chains += [((a, b, c), "stack") for a in KINDS[:8] for b in KINDS[4:12] for c in ("func", "ptrmethod", "closure", "otherpkg")]
    chains += [((a, b), "panic") for a in KINDS[:6] for b in KINDS[6:12]]
files = gen(chains); files.pop("sub/b.go")
log("chains: %d" % len(chains))
def normalise(text, ip=MODP):
    out = []
    for l in text.replace("\r\n", "\n").split("\n"):
        l = re.sub(r"\+0x[0-9a-f]+", "+0x?", l)
        l = re.sub(r"goroutine \d+", "goroutine N", l)
        l = re.sub(r"in goroutine \d+", "in goroutine N", l)
        l = re.sub(r"\((?:0x[0-9a-f]+|\.\.\.|[^()]*)\)$", "(...)", l) if not l.startswith("\t") else l
        l = re.sub(r"\[go\.shape[^\]]*\]|\[\.\.\.\]", "[...]", l)
        out.append(l)
    return out
def user_frames(lines):
    """pairs (function line, position line) for frames of the module's packages, in the first goroutine of the trace only:
    with GOTRACEBACK=all the other goroutines are parked at statements that are not call sites (a channel receive, a
    WaitGroup wait inlined away), which the property does not speak about."""
    fr = []
    seen_goroutine = False
    for i, l in enumerate(lines):
        if l.startswith("goroutine N ["):
            if seen_goroutine: break
            seen_goroutine = True
        if l.startswith("\t") and i > 0:
            fn = lines[i - 1]
            if fn.startswith(("main.", MODP + "/", "created by main.", "created by " + MODP)) or l.strip().startswith(MODP + "/"):
                # the pc offset (absent for inlined frames) is not something reverse touches, and inlining differs between the builds
                fr.append((fn, re.sub(r" \+0x\?$", "", l.strip())))
    return fr
CONFIGS = [[], ["-seed=AAAAAAAAAAA"]] if tier == "quick" else [[], ["-literals"], ["-seed=AAAAAAAAAAA"], ["-literals", "-seed=AAAAAAAAAAA"]]
d0 = g.newdir("plain"); write_module(d0, files, modpath=MODP)
p0 = g.go(["build", "-trimpath", "-o", "plain", "."], d0)
if p0.returncode != 0: log("generator bug:", p0.stderr.decode()[:3000]); sys.exit(2)
def trace_of(binp, ci):
    o = exec_bin(binp, [str(ci)], env={"GOTRACEBACK": "all"})
    return (o.stdout + o.stderr).decode(errors="replace")
plain = pmap(lambda ci: trace_of(d0 + "/plain", ci), range(len(chains)))
frames_total = 0; compared = 0
def cfg_run(fl):
    d = g.newdir("g"); write_module(d, files, modpath=MODP)
    p = g.garble(fl, "build", ["-o", "out", "."], d)
    if p.returncode != 0:
        return fl, None, short(p.stderr, 1500), d
    traces = pmap(lambda ci: trace_of(d + "/out", ci), range(len(chains)), workers=8)
    sep = "\n=====CHAIN=====\n"
    pr = g.garble(fl, "reverse", ["."], d, input=sep.join(traces).encode())
    return fl, (traces, pr.stdout.decode(errors="replace").split(sep), pr.returncode), None, d
text_checks = 0
for fl, res, err, d in pmap(cfg_run, CONFIGS, workers=4):
    if res is None:
        R.violation("build-fails", "garble %s build fails: %s" % (fl, err)); continue
    traces, reversed_, rc = res
    if len(reversed_) != len(chains):
        R.violation("reverse-output-shape", "garble %s reverse returned %d sections for %d traces (exit %d)" % (fl, len(reversed_), len(chains), rc)); continue
    for ci, (kinds, term) in enumerate(chains):
        want = user_frames(normalise(plain[ci])); got = user_frames(normalise(reversed_[ci]))
        frames_total += len(want)
        risky = any(k in RISKY for k in kinds)
        if len(want) != len(got):
            R.violation("frame-count:" + ("risky" if risky else "+".join(kinds)), "flags %s chain %s/%s: %d user frames after reverse, %d in the regular build\n%s\n--- vs ---\n%s" % (fl, kinds, term, len(got), len(want), reversed_[ci][:1500], plain[ci][:1500]),
                        {"module/" + k: v for k, v in files.items()})
            continue
        for (wf, wp), (gf, gp) in zip(want, got):
            compared += 1
            cn = lambda x: re.sub(r"^((?:created by )?)main\.main\.", r"\1main.", re.sub(r"\.func\d+", ".funcN", x))
            if wf != gf and "-literals" in fl and ".func" in wf and cn(wf) == cn(gf):
                # literal obfuscation adds function literals, which shifts the compiler's numbering of the user's own closures
                # (and, through inlining, the function a closure frame is named after)
                R.violation("function-name:closure-index-under-literals", "flags %s chain %s/%s: frame %r reversed to %r" % (fl, kinds, term, wf, gf), {"module/" + k: v for k, v in files.items()})
            elif wf != gf:
                R.violation("function-name:" + "+".join(kinds), "flags %s chain %s/%s: frame %r reversed to %r" % (fl, kinds, term, wf, gf), {"module/" + k: v for k, v in files.items()})
            if wp != gp:
                if risky: kind_sig = "multi-line-call"
                elif wf.startswith("created by"): kind_sig = "go-statement"
                elif any(k in ("deferred", "deferclosure") for k in kinds): kind_sig = "defer-statement"
                else: kind_sig = "+".join(kinds)
                R.violation("position:" + kind_sig, "flags %s chain %s/%s: position %r reversed to %r (function %s)" % (fl, kinds, term, wp, gp, wf), {"module/" + k: v for k, v in files.items()})
    # text forms on one trace
    t = traces[0]
    base = g.garble(fl, "reverse", ["."], d, input=t.encode())
    forms = {"wrapped": "\n".join("2026/01/02 prefix| " + l + " |suffix" for l in t.split("\n")), "crlf": t.replace("\n", "\r\n"), "no-final-newline": t.rstrip("\n")}
    for fname, text in forms.items():
        pr = g.garble(fl, "reverse", ["."], d, input=text.encode()); text_checks += 1
        exp = base.stdout.decode()
        if fname == "wrapped": exp = "\n".join("2026/01/02 prefix| " + l + " |suffix" for l in exp.split("\n"))
        elif fname == "crlf": exp = exp.replace("\n", "\r\n")
        else: exp = exp.rstrip("\n")
        if pr.stdout.decode() != exp or pr.returncode != 0:
            R.violation("text-form:" + fname, "flags %s: reversing the %s form differs from the transformed plain reversal (exit %d)" % (fl, fname, pr.returncode))
    # one very long line (a log record embedding the trace with escaped newlines): tokens at every offset around the
    # 4096-byte boundaries of a buffered reader
    exp_lines = base.stdout.decode().split("\n")
    for pad in range(3990, 4110, 7):
        text = "A" * pad + " " + "\\n".join(t.split("\n"))
        pr = g.garble(fl, "reverse", ["."], d, input=text.encode()); text_checks += 1
        if pr.stdout.decode() != "A" * pad + " " + "\\n".join(exp_lines):
            R.violation("text-form:long-line", "flags %s: a %d-byte line is not reversed like its parts (padding %d)" % (fl, len(text), pad)); break
    for fname, text in {"nothing-obfuscated": "just some text\nmain.notAHash()\n\tfile.go:12 +0x1\n", "empty": "", "binary": "\x00\x01\xff\n\xfe"}.items():
        pr = g.garble(fl, "reverse", ["."], d, input=text.encode("latin1")); text_checks += 1
        if pr.stdout != text.encode("latin1"):
            R.violation("passthrough:" + fname, "flags %s: text without obfuscated names is not passed through byte for byte: %r -> %r" % (fl, text, pr.stdout))
        if pr.returncode != 1:
            R.violation("exit-status:" + fname, "flags %s: exit status %d for input in which nothing was replaced (expected 1)" % (fl, pr.returncode))
    if base.returncode != 0:
        R.violation("exit-status:replaced", "flags %s: exit status %d although names were replaced" % (fl, base.returncode))
R.finish({
    "evaluations": len(chains) * len(CONFIGS) + text_checks,
    "distinct_nontrivial": compared,
    "rule": "all call chains of length <= %d over frame kinds %s (+ shapes spanning several lines), ending in debug.Stack / panic / runtime.Caller, in one program of 2 packages x 3 files; built with the regular toolchain (-trimpath) "
            "and with garble under %d flag sets; each garbled trace goes through `garble reverse`; oracle: for every frame of a user package, function name and importpath/file.go:line equal the regular build's trace after normalising "
            "goroutine numbers, offsets and argument words; wrapped / CRLF / unterminated text forms, byte-for-byte passthrough and the exit status; distinct_nontrivial = user frames compared" % (2 if tier == "quick" else 3, KINDS, len(CONFIGS)),
    "samples": [{"chain": list(c[0]), "terminal": c[1]} for c in chains[:3] + chains[-2:]],
    "chains": len(chains), "user_frames_in_reference_traces": frames_total, "text_form_checks": text_checks,
}, assumptions=["both builds inline identically (same compiler, same flags), so frames correspond one to one"], exhaustive=True)
