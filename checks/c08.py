#!/usr/bin/env python3
"""C08: types that reach reflection keep their original names at run time (engine A + replacer function seam)."""
import sys, os, itertools
sys.path.insert(0, os.path.join(os.path.dirname(os.path.abspath(__file__)), "..", "lib"))
from vlib import *
from enga import *

tier = tier_arg()
R = Result("C08", tier, "exploration")
g = Garble(name="c08")
hb = build_hooked()
rep = run_mode(hb, "c08repl", {"VERIF_C08_MAXINPUT": "6" if tier == "quick" else "7"}, timeout=3000)
for v in rep["violations"] or []:
    R.violation(v["sig"], v["what"])
log("replacer: %d pair lists, %d comparisons" % (rep["pair_lists"], rep["comparisons"]))

# ---- program layer: declaring package x reflecting package x flow path
DUMP = '''func dump@(t reflect.Type, depth int) string {
	if depth > 4 {
		return "..."
	}
	switch t.Kind() {
	case reflect.Ptr, reflect.Slice, reflect.Array, reflect.Map:
		return t.Kind().String() + "(" + dump@(t.Elem(), depth+1) + ")"
	case reflect.Struct:
		s := "struct " + t.Name() + "{"
		for i := 0; i < t.NumField(); i++ {
			f := t.Field(i)
			s += f.Name + ":" + dump@(f.Type, depth+1) + ";"
		}
		return s + "}"
	}
	return t.Kind().String() + " " + t.Name()
}
'''
def q(pkg, name): return name if pkg == "main" else "%s.%s" % ({"a": "a", "bc": "bc"}[pkg], name)
TYPEDECL = ("type Rec@ struct {\n\tAlpha int\n\tBeta  string `json:\"beta_tag\"`\n\tInner In@\n\tPtr   *In@\n\tList  []In@\n\tMapped map[string]In@\n\tNSlice NList@\n\tNMap NTable@\n\tNArr NBox@\n\tNPtr NRef@\n\tunexp int\n}\n\n"
            "type NList@ []ElemA@\n\ntype ElemA@ struct{ KeyA string }\n\ntype NTable@ map[string]ElemB@\n\ntype ElemB@ struct{ KeyB int }\n\ntype NBox@ [2]ElemC@\n\ntype ElemC@ struct{ KeyC bool }\n\ntype NRef@ *ElemD@\n\ntype ElemD@ struct{ KeyD float64 }\n\n"
            "type In@ struct {\n\tDeep  int\n\tOther Leaf@\n}\n\ntype Leaf@ struct{ Tip bool }\n\nfunc MkRec@() Rec@ {\n\treturn Rec@{Alpha: 1, Beta: \"b\", Inner: In@{Deep: 2}, NSlice: NList@{{KeyA: \"ka\"}}, NMap: NTable@{\"k\": {KeyB: 4}}, NArr: NBox@{{KeyC: true}}, NPtr: &ElemD@{KeyD: 1.5}, unexp: 3}\n}\n")
PATHS = ["direct", "helper1", "helper2", "two-params", "interface-value", "pointer", "slice-element", "slice", "variadic", "struct-field", "method-value",
         "json-marshal", "json-unmarshal", "fmt-plus-v", "template", "generic-helper", "closure", "map-value", "chan"]
def flow(path, T, mk, hp):
    """returns (helper decls in the reflecting package, statement using them). hp = helper qualifier prefix as seen from main."""
    h = lambda n: hp + n
    if path == "direct": return "func Direct@() string { return dump@(reflect.TypeOf(%s), 0) }\n", "fmt.Println(%s())" % h("Direct@")
    if path == "helper1": return "func Show@(v any) string { return dump@(reflect.TypeOf(v), 0) }\n", "fmt.Println(%s(%s))" % (h("Show@"), mk)
    if path == "helper2": return "func Show@(v any) string { return dump@(reflect.TypeOf(v), 0) }\n\nfunc Outer@(v any) string { return \"o:\" + Show@(v) }\n", "fmt.Println(%s(%s))" % (h("Outer@"), mk)
    if path == "two-params": return ("func Show@(v any) string { return dump@(reflect.TypeOf(v), 0) }\n\nfunc Two@(x, y any) string { return dump@(reflect.TypeOf(x), 0) + \"|\" + Show@(y) }\n",
                                     "fmt.Println(%s(1, %s))" % (h("Two@"), mk))
    if path == "interface-value": return "func Show@(v any) string { return dump@(reflect.TypeOf(v), 0) }\n", "var iv any = %s\n\tfmt.Println(%s(iv))" % (mk, h("Show@"))
    if path == "pointer": return "func Show@(v any) string { return dump@(reflect.TypeOf(v), 0) }\n", "pv := %s\n\tfmt.Println(%s(&pv))" % (mk, h("Show@"))
    if path == "slice-element": return "func Show@(v any) string { return dump@(reflect.TypeOf(v), 0) }\n", "sv := []%s{%s}\n\tfmt.Println(%s(sv[0]))" % (T, mk, h("Show@"))
    if path == "slice": return "func Show@(v any) string { return dump@(reflect.TypeOf(v), 0) }\n", "fmt.Println(%s([]%s{%s}))" % (h("Show@"), T, mk)
    if path == "variadic": return "func ShowAll@(vs ...any) string {\n\ts := \"\"\n\tfor _, v := range vs {\n\t\ts += dump@(reflect.TypeOf(v), 0)\n\t}\n\treturn s\n}\n", "fmt.Println(%s(1, %s))" % (h("ShowAll@"), mk)
    if path == "struct-field": return "type Holder@ struct{ V any }\n\nfunc ShowHolder@(h Holder@) string { return dump@(reflect.TypeOf(h.V), 0) }\n", "fmt.Println(%s(%s{V: %s}))" % (h("ShowHolder@"), h("Holder@"), mk)
    if path == "method-value": return "type Shower@ struct{}\n\nfunc (Shower@) Show(v any) string { return dump@(reflect.TypeOf(v), 0) }\n", "f := %s{}.Show\n\tfmt.Println(f(%s))" % (h("Shower@"), mk)
    if path == "json-marshal": return "func JSON@(v any) string {\n\tb, err := json.Marshal(v)\n\treturn string(b) + fmt.Sprint(err)\n}\n", "fmt.Println(%s(%s))" % (h("JSON@"), mk)
    if path == "json-unmarshal": return "func UnJSON@(v any) string {\n\terr := json.Unmarshal([]byte(`{\"Alpha\": 5, \"beta_tag\": \"z\", \"Inner\": {\"Deep\": 9}}`), v)\n\treturn fmt.Sprint(err)\n}\n", "uv := %s\n\tfmt.Println(%s(&uv), uv.Alpha, uv.Beta, uv.Inner.Deep)" % (mk, h("UnJSON@"))
    if path == "fmt-plus-v": return "func Plus@(v any) string { return fmt.Sprintf(\"%+v\", v) }\n", "fmt.Println(%s(%s))" % (h("Plus@"), mk)
    if path == "template": return "func Tmpl@(v any) string {\n\tvar sb strings.Builder\n\terr := template.Must(template.New(\"t\").Parse(\"{{.Alpha}}-{{.Inner.Deep}}-{{.Beta}}\")).Execute(&sb, v)\n\treturn sb.String() + fmt.Sprint(err)\n}\n", "fmt.Println(%s(%s))" % (h("Tmpl@"), mk)
    if path == "generic-helper": return "func GShow@[T any](v T) string { return dump@(reflect.TypeOf(v), 0) }\n", "fmt.Println(%s(%s))" % (h("GShow@"), mk)
    if path == "closure": return "var ShowFn@ = func(v any) string { return dump@(reflect.TypeOf(v), 0) }\n", "fmt.Println(%s(%s))" % (h("ShowFn@"), mk)
    if path == "map-value": return "func Show@(v any) string { return dump@(reflect.TypeOf(v), 0) }\n", "fmt.Println(%s(map[string]%s{\"k\": %s}))" % (h("Show@"), T, mk)
    if path == "chan": return "func Show@(v any) string { return dump@(reflect.ValueOf(v).Type(), 0) }\n", "cv := make(chan %s, 1)\n\tfmt.Println(%s(cv))" % (T, h("Show@"))
def units():
    out = []
    for decl, refl in (("main", "main"), ("a", "main"), ("bc", "main"), ("bc", "a"), ("a", "a"), ("main", "a")):
        for path in PATHS:
            if path == "direct" and decl == "main" and refl == "a": continue   # a cannot name a type of main
            T = q(decl, "Rec@"); mk = q(decl, "MkRec@") + "()"
            hp = "" if refl == "main" else "a."
            # helper code lives in the reflecting package; it sees the type only when it names it (direct)
            Th, mkh = (T, mk) if refl == "main" else ({"a": "Rec@", "bc": "bc.Rec@"}.get(decl), {"a": "MkRec@()", "bc": "bc.MkRec@()"}.get(decl))
            hdecl, stmt = flow(path, T, mk, hp)
            if path == "direct": hdecl = hdecl % (mkh,)
            hdecl = DUMP + "\n" + hdecl
            pk = {}
            main_decls = ""
            if decl == "main": main_decls += TYPEDECL
            else: pk[decl] = TYPEDECL
            if refl == "main": main_decls += "\n" + hdecl
            else: pk["a"] = pk.get("a", "") + "\n" + hdecl
            out.append(Unit("reflect decl=%s refl=%s path=%s" % (decl, refl, path), "\t" + stmt, decls=main_decls, pkgs=pk))
    return out
us = units()
if tier != "quick":
    us += chain_units(1, with_reflect=True) + chain_units(2, with_reflect=True)
else:
    us += chain_units(1, with_reflect=True)
nu = number(us)
log("units: %d" % len(nu))
CONFIGS = [[], ["-seed=AAAAAAAAAAA"]] if tier == "quick" else [[], ["-tiny"], ["-literals"], ["-seed=AAAAAAAAAAA"]]
packs = [nu[i:i + 100] for i in range(0, len(nu), 100)]
jobs = [(p, fl) for p in packs for fl in CONFIGS]
built = 0
for (p, fl), r in zip(jobs, pmap(lambda j: build_pack(g, j[0], j[1], argvs=[[]]), jobs, workers=6)):
    built += 1
    if not r.plain_ok:
        log("generator bug:", short(r.garble_stderr, 3000)); sys.exit(2)
    if r.build_ok is False:
        small = bisect_build_failure(g, p, fl)
        r2 = build_pack(g, small, fl, argvs=[])
        for n, u in small[:3]:
            R.violation("build-fails:" + u.name, "garble %s build fails for %s: %s" % (fl, u.name, short(r2.garble_stderr, 1200)), {"module/" + k: v for k, v in assemble(small, header_main=PTR_HELPER).items()})
    for n, desc in r.bad_units.items():
        u = dict(p).get(n)
        name = u.name if u else "exit"
        sig = "names-lost:" + re.sub(r"decl=\w+ refl=\w+ ", "", name) if name.startswith("reflect") else "names-lost:" + name
        m = re.search(r"plain build prints\n(.*)\ngarbled build prints\n(.*)$", desc, re.S)
        if m and re.search(r"alias\+(generic)?embed", name):
            pl, gl = m.group(1).split("\n"), m.group(2).split("\n")
            dl = [(x, y) for x, y in zip(pl, gl) if x != y]
            # the only difference is the name of the embedded field, which is the alias's name in the plain build
            if len(pl) == len(gl) and len(dl) == 1 and re.match(r"A\d+_\d+ ", dl[0][0]) and dl[0][0].split(" ", 1)[1:] == dl[0][1].split(" ", 1)[1:]:
                sig = "names-lost:embedded-alias-field-name"
        R.violation(sig, "flags %s unit %s: %s" % (fl, name, desc), {"module/" + k: v for k, v in assemble([(n, u)], header_main=PTR_HELPER).items()} if u else None)
# ---- scripted map-iteration worlds (engine B): the reflection analysis must not depend on garble's map iteration order
gmw = Garble(binpath=build_garble_mapworld(), name="c08")
WORLDS = list(range(1, 5 if tier == "quick" else 13))
refl_units = number([u for u in us if u.name.startswith("reflect")])
world_runs = 0
def wjob(w):
    return w, build_pack(gmw, refl_units, [], {"VERIF_MAPWORLD": str(w)}, argvs=[[]])
for w, r in pmap(wjob, WORLDS, workers=4):
    world_runs += 1
    if r.build_ok is False:
        R.violation("map-world-build-fails", "world %d: garble build fails: %s" % (w, short(r.garble_stderr, 800)))
    for n, desc in r.bad_units.items():
        u = dict(refl_units).get(n)
        name = u.name if u else "exit"
        R.violation("names-lost:" + re.sub(r"decl=\w+ refl=\w+ ", "", name), "map world %d (VERIF_MAPWORLD=%d, replayable) unit %s: %s" % (w, w, name, desc))
R.finish({
    "evaluations": rep["comparisons"] + built + world_runs,
    "distinct_nontrivial": len(us),
    "rule": "program layer: a struct with nested / pointer / slice / map-of-struct fields declared in {main, dep, dep of dep} and reflected in {main, dep} through each of %d flow paths (direct, 1-2 helpers, two-parameter helper, "
            "interface, pointer, slice, variadic, struct field, method value, json, fmt %%+v, text/template, generic helper, closure, map, chan) plus the type-algebra chains with reflective use sites; oracle: stdout (type names, "
            "field names, JSON keys, lookups by name) equals the plain build; replacer seam: all lists of <=3 sorted pairs over keys {a,b}^1..3 x inputs {a,b,c}^<=%s against strings.NewReplacer; "
            "distinct_nontrivial = distinct program units" % (len(PATHS), "6" if tier == "quick" else "7"),
    "samples": [u.name for u in us[:3]] + (rep["samples"] or [])[:3],
    "replacer_pair_lists": rep["pair_lists"], "replacer_comparisons": rep["comparisons"], "replacer_inputs_changed": rep["inputs_changed_by_replacement"], "modules_built": built, "map_worlds": len(WORLDS),
}, assumptions=["map iteration orders of garble are explored through N scripted, replayable worlds of the patched runtime, not all orders"], exhaustive=True)
