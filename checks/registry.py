NOT_APPLICABLE = {}
reg("C16", "exploration", "bounded exhaustive input enumeration at the function seam (cell-coverage driven) + generated packages through the CLI",
    "F function-seam enumerator",
    "Every cell {first base64 symbol} x {length} x {name class} of the real hashWithCustomSalt is driven >=3 (quick) / >=12 (thorough) times and checked "
    "against the stated output contract and a sha256-prefix derivation model; distinctness on 60k/600k identifiers; big packages built end to end.",
    "trusts crypto/sha256, encoding/base64, go/token and the Go toolchain; salts/seeds outside the enumerated ones are not covered",
    "DESIGN.md 4 C16")
