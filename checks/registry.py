NOT_APPLICABLE = {}
A = "A program-space explorer"
B = "B choice-point explorer"
C = "C history/fault/crash enumerator"
D = "D controlled-scheduler interleaving explorer"
E = "E argv enumerator"
F = "F function-seam enumerator"
reg("C01", "exploration", "bounded exhaustive program enumeration (unit catalogue x type-constructor chains x config grid) through the real CLI, differential oracle against the Go toolchain", A,
    "Every unit of a parameterised catalogue (all parameter tuples) and every expressible chain of <=2 (quick) / 3 (thorough) type constructors x package placement is built by garble under the configuration grid and run on 3 argument vectors; "
    "stdout per unit and exit status must equal the plain build; plus -ldflags=-X, garble run and garble test programs. A failure is bisected to a minimal set of units.",
    "claims hold for programs of the catalogue/algebra only; trusts the Go toolchain as reference semantics", "DESIGN.md 4 C01")
reg("C02", "exploration", "marker enumeration: one unique token per syntactic position kind x flag/location/TMPDIR grid, byte scan of the binary", A,
    "A generated 3-package module (Go, assembly, headers, //line directives) in which every name is a unique marker; every non-exempt marker must be absent from the garbled binary under every grid cell, metadata readers must find nothing; vacuity guard: the markers are present in the plain build.",
    "substring scan; names hidden by compression/encoding would be missed", "DESIGN.md 4 C02")
reg("C03", "exploration", "single-factor enumeration of the build environment around a cold baseline (CLI) + enumeration of scripted map-iteration worlds (patched runtime) and global-seed deviation at the unit seam", A + " / " + B,
    "Every single-factor deviation (second cold build, warm rebuild, dependency first, -p, source location, TMPDIR placement) of the baseline build must give the same sha256; ctrlflow.Obfuscate must not depend on the process-global math/rand (decided by seeding it with two values) nor on garble's map iteration order (N scripted, replayable worlds of a patched runtime).",
    "N map worlds, not all orders; the standard library is warm in all grid builds", "DESIGN.md 4 C03")
reg("C04", "exploration", "exhaustive call-chain enumeration (frame kinds^<=2/3 x terminal) through build + reverse, line-by-line differential against the -trimpath build", A,
    "All chains of <=2 (quick) / 3 (thorough) frames over 15 frame kinds ending in debug.Stack/panic/runtime.Caller; each garbled trace is reversed and every user frame's function and file:line compared with the regular build; text forms and exit status.",
    "assumes identical inlining in both builds; go/defer statement and multi-line call positions are listed known findings", "DESIGN.md 4 C04")
reg("C05", "exploration", "deviation-bounded exploration of the obfuscation PRNG (scripted math/rand Source) on the real literals.Obfuscate, every result compiled by gc and executed", B,
    "For each obfuscator x literal form x data: base streams and, per rand call site, each of its first draws replaced by each alphabet value (deviation 1; thorough: every position on the smallest instance, deviation 2 on key/index/operator sites); every obfuscated literal must decode to its original bytes; boundary lengths; 44 syntactic contexts end to end with each obfuscator forced.",
    "draw values outside the 11-value alphabet and >2 simultaneous deviations only through PRNG base streams", "DESIGN.md 4 C05")
reg("C06", "exploration", "exhaustive enumeration of build/edit histories (all ordered pairs of configurations, build-edit-build) over one shared cache pair, oracle = cold build of the final state", C,
    "Every ordered pair of configurations and every build;edit(p);build history: the last binary must be byte-identical to (and behave like) a build whose user packages are cold, and an unchanged rebuild must recompile nothing.",
    "standard-library entries are shared between history and reference", "DESIGN.md 4 C06")
reg("C07", "fault_enumeration", "exhaustive single/pair/subset fault injection (delete, empty, truncate) over every cache entry a build added, followed by rebuilds with and without edits", C,
    "Every cache file added by a warm build of a 3-level reflecting module x 3 fault kinds, all pairs of garble index entries, all whole-tree deletions, each followed by rebuild / rebuild after editing main / mid; the result must equal the cold reference.",
    "faults are applied between builds", "DESIGN.md 4 C07")
reg("C08", "exploration", "exhaustive enumeration declaring package x reflecting package x flow path (+ type chains) through the CLI, repeated in scripted map-iteration worlds; exhaustive small-scope comparison of the injected replacer with strings.NewReplacer", A + " / " + F,
    "A nested struct declared in {main, dep, dep of dep} reflected in {main, dep} through 19 flow paths, plus type-algebra chains with reflective use sites: reflection output must equal the plain build; the injected replacer equals strings.NewReplacer on all <=3-pair lists over prefix-sharing keys x inputs up to length 6/7.",
    "N scripted map worlds, not all orders", "DESIGN.md 4 C08, 9.2")
reg("C09", "exploration", "marker enumeration: unique literal per (syntactic position, length) x flag/seed/-X grid, byte scan of the binary", A,
    "A unique high-entropy literal of each window length in each of ~32 syntactic positions; none may occur in the -literals binary, nor the seed; exempt positions are recorded only; output must equal the plain build.",
    "whole-literal substring scan", "DESIGN.md 4 C09")
reg("C10", "exploration", "exhaustive crash-kind x goroutine-context x GOTRACEBACK enumeration, differential against the regular build", A,
    "29 crash kinds x 4 contexts x GOTRACEBACK values: the -tiny binary's stderr holds only program-written lines, stdout and exit status equal the regular build, position queries report no file.",
    "timing-dependent crash kinds excluded", "DESIGN.md 4 C10")
reg("C11", "exploration", "deviation-bounded exploration of the obfuscation PRNG on the real ctrlflow.Obfuscate+ssa2ast over a parameter grid, every rewritten package compiled by gc and executed on an argument grid", B,
    "47 functions x parameter grid x base streams, and per rand call site its first draws replaced by alphabet values; each distinct rewritten package is compiled and run (182 observations) and compared per function with the original; rejected functions (error, crash, compile error) are counted, not failed.",
    "the six baseline miscompilations and the trash_blocks+block_splits combination are listed known findings; map order not controlled", "DESIGN.md 4 C11")
reg("C12", "exploration", "pairwise single-input-difference enumeration over complete name maps recovered from -debugdir", A,
    "Complete name maps of 8 (quick) / 20 (thorough) builds; every pair differing in exactly one input is judged name by name against the salting rules (seeded: equal unless seed/path; unseeded: all change iff an input of the package changes).",
    "accidental hash equality would be reported (p < 2^-36)", "DESIGN.md 4 C12")
reg("C13", "exploration", "object-by-object comparison of garble map, the build (-debugdir) and garble reverse over an API corpus x configurations", A,
    "Every listed object and path is compared with the name the build uses, completeness is checked with an independent go/types+objectpath walk, and every listed name is fed through garble reverse.",
    "embedded-field naming is a listed known finding", "DESIGN.md 4 C13")
reg("C14", "exploration", "exhaustive enumeration of package subsets (2^5) x pattern syntaxes, marker scan + differential behaviour", A,
    "Every non-empty subset of a 5-package module (12 in quick) expressed as GOGARBLE pattern lists; selected packages' markers absent, unselected ones verbatim, runtime intact, behaviour equal, non-matching patterns rejected.",
    "struct conversion across the boundary is a listed known finding", "DESIGN.md 4 C14")
reg("C15", "exploration", "exhaustive small-scope enumeration of struct types (<=3/4 fields) x declaration variants at the function seam; generated conversion programs through the CLI", F + " / " + A,
    "All structs over the field-spec alphabet in all variants (tags, field packages, named/alias/generic origin+instantiations): equal hashWithStruct names within every types.IdenticalIgnoreTags class; 66/228 struct shapes converted across three packages end to end.",
    "go/types defines identity", "DESIGN.md 4 C15")
reg("C16", "exploration", "bounded exhaustive input enumeration at the function seam (cell-coverage driven) + generated packages through the CLI", F,
    "Every cell {first base64 symbol} x {length} x {name class} of the real hashWithCustomSalt is driven >=3 (quick) / >=12 (thorough) times and checked against the stated output contract and a sha256-prefix derivation model; distinctness on 60k/600k identifiers; big packages built end to end.",
    "trusts crypto/sha256, encoding/base64, go/token and the Go toolchain; salts/seeds outside the enumerated ones are not covered", "DESIGN.md 4 C16")
reg("C17", "model_checking", "stateless DFS over all interleavings (preemption-bounded for >=3 processes) and crash points of the real linker-cache protocol under a controlled scheduler with an OS shim; stub conformance by strace", D,
    "The real linker.PatchLinker plus the unlock/run order extracted from main.go, 2-4 simulated processes, 5 initial cache states, both install modes, 0-2 crashes: on every execution each process that executes the linker reads a complete image of its own version, no deadlock, all live processes finish. Real concurrent builds are sampled in addition.",
    "external tools are stubs validated against strace of the real go command; go-internal's cache is not re-verified", "DESIGN.md 4 C17")
reg("C18", "fault_enumeration", "crash-point enumeration on the real build: ptrace supervisor kills the process tree before the K-th file-system mutation, for every selected K, then recovery build", C,
    "Real garble builds from three start states (one with a foreign linker under a stale stamp); killed before each (thorough) / a class-covering selection (quick) of the mutations touching GOCACHE, GARBLE_CACHE and the output; re-running the build on the surviving state must succeed and reproduce the reference binary. Plus -debugdir over an owned directory rebuilt on tmpfs once per permutation of its top-level entries (the directory order is an environment answer that decides what a kill leaves behind): real kills at the top-level boundaries of the emptying phase, then the same build again.",
    "one schedule (-p 1); torn single writes are not produced", "DESIGN.md 4 C18")
reg("C19", "exploration", "exhaustive enumeration commands x outcomes x -debugdir target states x cache states with recursive snapshots", A,
    "All commands x 7 outcomes and build x 9 debugdir states x cache states: source tree byte-identical, private TMPDIR empty, foreign targets untouched and refused, owned targets complete, identical across runs, every garbled Go file corresponds to its source (declaration skeleton) and every garbled assembly/header file of every package is the line-by-line image of its source.",
    "TMPDIR private per run", "DESIGN.md 4 C19")
reg("C20", "exploration", "exhaustive argv enumeration (length <=3/4 over the go command's real flag set, probed from the go binary) at the function seam + CLI conformance through a stub go", E,
    "Every vector over {each flag in 4 spellings} U values against a reference splitter and forward filter whose flag table is probed from the real go binary; ~250 CLI vectors compare the argv garble hands to go list / go build with the prediction; garble flags after the command and unknown flags for reverse/map are rejected.",
    "the go command's own parsing is the reference", "DESIGN.md 4 C20")
