#!/usr/bin/env python3
"""C18: an interrupted build leaves nothing that breaks the next one (engine C: crash-point enumeration with a ptrace supervisor)."""
import sys, os
sys.path.insert(0, os.path.join(os.path.dirname(os.path.abspath(__file__)), "..", "lib"))
from vlib import *
from caches import *

tier = tier_arg()
R = Result("C18", tier, "fault_enumeration")
g = Garble(name="c18")
sup = crashsup_bin()
MODP = "example.com/c18"
SRC = {
    "main.go": "package main\n\nimport (\n\t\"encoding/json\"\n\t\"fmt\"\n\n\t\"%s/lib\"\n)\n\ntype Out struct {\n\tName string\n\tN    int\n}\n\nfunc main() {\n\tb, _ := json.Marshal(Out{lib.Name(), lib.Count()})\n\tfmt.Println(string(b))\n}\n" % MODP,
    "lib/lib.go": "package lib\n\nimport \"reflect\"\n\ntype rec struct{ Field int }\n\nfunc Name() string { return reflect.TypeOf(rec{}).Name() }\n\nfunc Count() int { return len(\"a literal in lib\") }\n",
}
base = ensure_base(g, [], None)
dl = Deadline(240 if tier == "quick" else 7200)

def norm(path, root):
    p = path.replace(root, "")
    p = re.sub(r"/gocache/[0-9a-f]{2}/[0-9a-f]{64}-([ad])", r"/gocache/<id>-\1", p)
    p = re.sub(r"/garblecache/build/[0-9a-f]{2}/[0-9a-f]{64}-([ad])", r"/garblecache/build/<id>-\1", p)
    p = re.sub(r"/garblecache/build/[0-9a-f]{2}$", "/garblecache/build/<xx>", p)
    p = re.sub(r"/gocache/[0-9a-f]{2}$", "/gocache/<xx>", p)
    p = re.sub(r"go-build\d+", "go-build<n>", p); p = re.sub(r"garble-shared\d+", "garble-shared<n>", p)
    p = re.sub(r"\d{6,}", "<n>", p)
    return p

def freshen(root):
    """cmd/go and garble refresh the mtime of every cache entry they use that is older than an hour. Those utimens calls would be
    counted as mutations in the first supervised run only (they refresh the inodes shared by the hard-linked clones), shifting the
    numbering of every later kill run; with all entries fresh there are none in any run."""
    for r, _, fs in os.walk(root):
        for f in fs:
            try: os.utime(os.path.join(r, f))
            except OSError: pass
def scenario(name, prep, tmp_on_shm, select):
    """prep(root): mutate the start state; select(ops): indices (1-based) of the boundaries to kill at."""
    S0 = os.path.join(g.root, "S0-" + name)
    compose(S0, [base])
    prep(S0)
    freshen(S0)
    src = os.path.join(g.root, "src-" + name)
    write_module(src, SRC, modpath=MODP)
    def env_for(root, tag):
        tmp = ("/dev/shm/verif-c18-%d-%s-%s" % (os.getpid(), name, tag)) if tmp_on_shm else os.path.join(root, "tmp")
        shutil.rmtree(tmp, ignore_errors=True)
        gg = Garble(binpath=g.bin, gocache=os.path.join(root, "gocache"), garblecache=os.path.join(root, "garblecache"), name="c18")
        return gg.env(tmpdir=tmp), tmp
    def run_build(root, tag, k=None, logpath=None):
        env, tmp = env_for(root, tag)
        out = os.path.join(root, "out")
        cmd = [g.bin, "build", "-p", "1", "-o", out, "."]
        if logpath:
            cmd = [sup, "-t", os.path.join(root, "gocache"), "-t", os.path.join(root, "garblecache"), "-t", out] + (["-t", tmp] if os.environ.get("VERIF_C18_TRACK_TMP") else []) + (["-k", str(k)] if k else []) + ["-l", logpath, "--"] + cmd
        p = run(cmd, cwd=src, env=env, timeout=1800)
        return p, tmp
    # reference + boundary list (log run on a clone of S0)
    ref = os.path.join(g.root, "ref-" + name); fast_clone(S0, ref)
    p, tmp = run_build(ref, "ref", logpath=os.path.join(g.root, "log-" + name))
    if p.returncode != 0:
        log("FATAL: supervised reference build failed:", short(p.stderr, 2000)); sys.exit(2)
    refsha = sha256_file(os.path.join(ref, "out")); refout = exec_bin(os.path.join(ref, "out")).stdout
    ops = [l.split("\t") for l in read(os.path.join(g.root, "log-" + name)).split("\n") if l and l[0].isdigit()]
    shutil.rmtree(ref, ignore_errors=True); shutil.rmtree(tmp, ignore_errors=True)
    nops = [(int(o[0]), o[2], norm(o[3], ref)) for o in ops]
    ks = thin(nops, select(nops))
    log("[%s] %d tracked mutations in the uninterrupted build, %d selected as kill points" % (name, len(ops), len(ks)))
    def one(k):
        if dl.expired(): return None
        root = os.path.join(g.root, "k-%s-%d" % (name, k)); link_clone(S0, root)
        lp = os.path.join(g.root, "klog-%s-%d" % (name, k))
        p, tmp = run_build(root, "k%d" % k, k=k, logpath=lp)
        lines = read(lp).split("\n") if os.path.exists(lp) else []
        killed = any(l.startswith("KILL") for l in lines)
        last = [l.split("\t") for l in lines if l and l[0].isdigit()]
        at = (last[-1][2], norm(last[-1][3], root)) if last else ("?", "?")
        shutil.rmtree(tmp, ignore_errors=True)
        res = {"k": k, "killed": killed, "at": at, "rc_killed": p.returncode}
        if killed:
            try: os.remove(os.path.join(root, "out"))
            except OSError: pass
            p2, tmp2 = run_build(root, "r%d" % k)
            res["rc"] = p2.returncode; res["stderr"] = p2.stderr
            if p2.returncode == 0:
                res["sha"] = sha256_file(os.path.join(root, "out")); res["stdout"] = exec_bin(os.path.join(root, "out")).stdout
            res["leftover"] = [e for e in (os.listdir(tmp2) if os.path.isdir(tmp2) else []) if e.startswith("garble-shared")]
            shutil.rmtree(tmp2, ignore_errors=True)
        shutil.rmtree(root, ignore_errors=True)
        return res
    results = [r for r in pmap(one, ks, workers=6) if r]
    hit = set()
    for r in results:
        if not r["killed"]: continue
        hit.add(r["at"])
        label = "[%s] killed before mutation %d (%s %s)" % (name, r["k"], r["at"][0], r["at"][1])
        cls = "%s %s" % (r["at"][0], re.sub(r"<id>|<xx>|<n>", "*", r["at"][1]))
        replay = {"replay.txt": "%s\nstart state: %s\ncommand: crashsup -k %d ... -- garble build -p 1 -o out . ; then garble build -p 1 -o out .\n" % (label, name, r["k"])}
        if r["rc"] != 0:
            R.violation("recovery-fails:" + cls, "%s: the next build exits %d: %s" % (label, r["rc"], short(r["stderr"], 700)), replay)
        elif r["stdout"] != refout:
            R.violation("recovery-wrong-output:" + cls, "%s: the next build's binary prints %r instead of %r" % (label, r["stdout"][:200], refout[:200]), replay)
        elif r["sha"] != refsha:
            R.violation("recovery-binary-differs:" + cls, "%s: the next build's binary differs from the uninterrupted reference" % label, replay)
        if r.get("leftover"):
            R.violation("recovery-leaves-temp:" + cls, "%s: the recovery run left %s in TMPDIR" % (label, r["leftover"]), replay)
    shutil.rmtree(S0, ignore_errors=True)
    allb = set((o[2], norm(o[3], ref)) for o in ops)
    return len(ops), len(results), sum(1 for r in results if r["killed"]), hit, allb

def thin(ops, ks):
    """a run of consecutive boundaries of one kind on one file (the chunks of one copy: 1 write with copy_file_range, hundreds
    with a read/write loop, depending on the file systems) leaves the same kind of state: keep its first, middle and last."""
    cls = {n: (sc, p) for n, sc, p in ops}
    ks = sorted(ks); out = []; i = 0
    while i < len(ks):
        j = i
        while j + 1 < len(ks) and ks[j + 1] == ks[j] + 1 and cls[ks[j + 1]] == cls[ks[i]]: j += 1
        run_ = ks[i:j + 1]
        out += sorted(set([run_[0], run_[len(run_) // 2], run_[-1]]))
        i = j + 1
    return out
def sel_quick_classes(ops):
    """quick: for every distinct (syscall, normalised path) class its first and last boundary, plus every 4th boundary overall."""
    first, last = {}, {}
    for n, sc, p in ops:
        first.setdefault((sc, p), n); last[(sc, p)] = n
    every = [n for i, (n, sc, p) in enumerate(o for o in ops if o[1] != "utimens") if i % 4 == 0]   # see sel_all_but_mkdirs
    return sorted(set(first.values()) | set(last.values()) | set(every))
def sel_all_but_mkdirs(ops):
    ks = []; mk = [n for n, s, p in ops if s == "mkdir" and re.search(r"/(gocache|garblecache/build)/<xx>$", p)]
    keep_mk = set(mk[:1] + mk[len(mk) // 2:len(mk) // 2 + 1] + mk[-1:])
    # cmd/go refreshes the mtime of every cache entry it uses that is older than an hour: hundreds of utimens calls when the
    # prepared caches are old, none when they are fresh; a kill before one of them leaves the state of the previous boundary
    ut = [n for n, s, p in ops if s == "utimens"]
    keep_ut = set(ut[:1] + ut[-1:])
    for n, s, p in ops:
        if n in mk and n not in keep_mk: continue
        if s == "utimens" and n not in keep_ut: continue
        ks.append(n)
    return ks
def sel_quick_A(ops):
    ks = sel_all_but_mkdirs(ops)
    # quick: every boundary in GARBLE_CACHE and on the output, every 2nd in GOCACHE
    out = [n for i, n in enumerate(ks)]
    sel = []
    gi = 0
    for n, s, p in ops:
        if n not in out: continue
        if "/gocache/" in p:
            gi += 1
            if gi % 3 != 1: continue
        sel.append(n)
    return sel
def sel_tool(ops, every):
    sel = []; gi = 0
    for n, s, p in ops:
        if "/garblecache/tool" in p: sel.append(n)
        elif "/garblecache/build/<xx>" in p and s == "mkdir": continue
        else:
            gi += 1
            if gi % every == 1: sel.append(n)
    return sel
def prep_no_garble_entries(root):
    shutil.rmtree(os.path.join(root, "garblecache", "build"), ignore_errors=True)
def prep_no_garblecache(root):
    shutil.rmtree(os.path.join(root, "garblecache"), ignore_errors=True)
def prep_stale_linker(root):
    shutil.rmtree(os.path.join(root, "garblecache", "build"), ignore_errors=True)
    _foreign_linker(root)
    write(os.path.join(root, "garblecache", "tool", "link.version"), "go1.26.0 stale\n")


def scenario_debugdir():
    """A build with -debugdir over a directory that an earlier build of garble owns. garble empties that directory first
    (unlink/rmdir, following the order in which the file system lists the entries). Which entries are already gone when a
    kill lands inside that phase depends on that order, so the order is enumerated as an environment answer: the directory is
    rebuilt on tmpfs (which lists entries by creation time) once per permutation of its top-level entries, the real build is
    run under the supervisor, and it is killed at every top-level boundary of the emptying phase (plus inside a sub-tree);
    the same build is then run again."""
    name = "D-owned-debugdir"
    S0 = os.path.join(g.root, "S0-" + name); compose(S0, [base]); freshen(S0)
    src = os.path.join(g.root, "src-" + name); write_module(src, SRC, modpath=MODP)
    DD0 = os.path.join(g.root, "dd0")
    shm = "/dev/shm/verif-c18-%d-dd" % os.getpid()
    shutil.rmtree(shm, ignore_errors=True); os.makedirs(shm)
    def build(root, dd, tag, k=None, logpath=None):
        tmp = os.path.join(root, "tmp-" + tag); shutil.rmtree(tmp, ignore_errors=True)
        gg = Garble(binpath=g.bin, gocache=os.path.join(root, "gocache"), garblecache=os.path.join(root, "garblecache"), name="c18")
        out = os.path.join(root, "out")
        cmd = [g.bin, "-debugdir=" + dd, "build", "-p", "1", "-o", out, "."]
        if logpath:
            cmd = [sup, "-t", dd] + (["-k", str(k)] if k else []) + ["-l", logpath, "--"] + cmd
        p = run(cmd, cwd=src, env=gg.env(tmpdir=tmp), timeout=1800)
        left = [e for e in (os.listdir(tmp) if os.path.isdir(tmp) else []) if e.startswith("garble-shared")]
        shutil.rmtree(tmp, ignore_errors=True)
        return p, left
    def fileset(d): return sorted(os.path.relpath(os.path.join(r, f), d) for r, _, fs in os.walk(d) for f in fs)
    p, _ = build(S0, DD0, "prep")          # fills the caches' debug artifacts and DD0 (the first -debugdir build rebuilds everything)
    if p.returncode != 0:
        log("FATAL: -debugdir reference build failed:", short(p.stderr, 2000)); sys.exit(2)
    p, _ = build(S0, DD0, "ref")           # warm build over the owned directory: the reference
    if p.returncode != 0:
        log("FATAL: warm -debugdir reference build failed:", short(p.stderr, 2000)); sys.exit(2)
    refsha = sha256_file(os.path.join(S0, "out")); reffiles = fileset(DD0)
    os.remove(os.path.join(S0, "out"))
    top = sorted(os.listdir(DD0))
    def make_dd(dst, want):
        """copy of DD0 whose top-level entries are LISTED in the order `want` (tmpfs lists by creation time; the direction is probed)."""
        for order in (list(want), list(reversed(want))):
            shutil.rmtree(dst, ignore_errors=True); os.makedirs(dst)
            for e in order:
                sp = os.path.join(DD0, e)
                shutil.copytree(sp, os.path.join(dst, e)) if os.path.isdir(sp) else shutil.copy2(sp, os.path.join(dst, e))
            if os.listdir(dst) == list(want): return True
        return False
    perms = list(itertools.permutations(top))
    if tier == "quick":   # the sentinel listed first, in the middle, last
        sent = [e for e in top if not os.path.isdir(os.path.join(DD0, e))][:1]
        rest = [e for e in top if e not in sent]
        perms = [tuple(sent + rest), tuple(rest[:1] + sent + rest[1:]), tuple(rest + sent)] if sent else perms[:3]
    log("[%s] owned debugdir holds %d files, top-level entries %s; %d directory orders" % (name, len(reffiles), top, len(perms)))
    stats = {"orders": 0, "orders_not_realisable": 0, "kills": 0, "emptying_phase_mutations": 0, "order_followed_by_garble": []}
    def one_order(pi):
        want = perms[pi]
        dd = os.path.join(shm, "o%d" % pi)
        if not make_dd(dd, want): return {"order": want, "unrealisable": True}
        root = os.path.join(g.root, "do-%d" % pi); link_clone(S0, root)
        lp = os.path.join(g.root, "log-%s-%d" % (name, pi))
        p, _ = build(root, dd, "log", logpath=lp)
        shutil.rmtree(root, ignore_errors=True)
        ops = [l.split("\t") for l in read(lp).split("\n") if l and l[0].isdigit()]
        phase = []
        for o in ops:
            if o[2] != "unlink": break
            phase.append((int(o[0]), o[3]))
        def topof(pth):
            rel = os.path.relpath(pth, dd)
            return None if rel == "." else rel.split("/")[0]
        seen = []; switch = []
        for n, pth in phase:
            t = topof(pth)
            if t is not None and (not seen or seen[-1] != t):
                seen.append(t); switch.append(n)
        # kill before: the 2nd mutation, the first mutation of every further top-level entry, the middle of the phase, its last mutation
        ks = sorted(set(([phase[1][0]] if len(phase) > 1 else []) + switch[1:] + [phase[len(phase) // 2][0], phase[-1][0]])) if phase else []
        if tier == "quick": ks = ks[:2]
        def one_kill(k):
            ddk = "%s-k%d" % (dd, k)
            make_dd(ddk, want)
            root = os.path.join(g.root, "dk-%d-%d" % (pi, k)); link_clone(S0, root)
            lpk = os.path.join(g.root, "klog-%s-%d-%d" % (name, pi, k))
            build(root, ddk, "k", k=k, logpath=lpk)
            killed = any(l.startswith("KILL") for l in (read(lpk).split("\n") if os.path.exists(lpk) else []))
            state = sorted(os.listdir(ddk)) if os.path.isdir(ddk) else None
            p2, left = build(root, ddk, "r")
            r = {"k": k, "killed": killed, "state": state, "rc": p2.returncode, "stderr": p2.stderr, "left": left}
            if p2.returncode == 0:
                r["sha"] = sha256_file(os.path.join(root, "out")); r["files"] = fileset(ddk)
            shutil.rmtree(root, ignore_errors=True); shutil.rmtree(ddk, ignore_errors=True)
            return r
        res = pmap(one_kill, ks, workers=4)
        shutil.rmtree(dd, ignore_errors=True)
        return {"order": want, "rc_log": p.returncode, "phase": len(phase), "seen": seen, "kills": res}
    for rep in pmap(one_order, range(len(perms)), workers=3):
        if rep.get("unrealisable"):
            stats["orders_not_realisable"] += 1; continue
        stats["orders"] += 1; stats["emptying_phase_mutations"] += rep["phase"]
        stats["order_followed_by_garble"].append({"listed": list(rep["order"]), "removed_in_order": rep["seen"]})
        if rep["rc_log"] != 0:
            R.violation("build-fails:debugdir-owned", "[%s] directory order %s: the uninterrupted build over an owned debugdir fails" % (name, list(rep["order"])))
        for r in rep["kills"]:
            if not r["killed"]: continue
            stats["kills"] += 1
            what = "[%s] directory lists %s; killed before mutation %d of the emptying phase (left: %s); then the same build again" % (name, list(rep["order"]), r["k"], r["state"])
            replay = {"replay.txt": what + "\ncommand: crashsup -k %d -t dd -- garble -debugdir=dd build -p 1 -o out . ; then the same command without crashsup\n" % r["k"]}
            cls = "sentinel-gone" if r["state"] and ".garble-debugdir" not in r["state"] else "sentinel-kept"
            if r["rc"] != 0:
                R.violation("recovery-fails:debugdir:" + cls, "%s: exits %d: %s" % (what, r["rc"], short(r["stderr"], 500)), replay)
            elif r["sha"] != refsha:
                R.violation("recovery-binary-differs:debugdir:" + cls, "%s: binary differs from the uninterrupted build" % what, replay)
            elif r["files"] != reffiles:
                R.violation("recovery-debugdir-incomplete:" + cls, "%s: debugdir holds %d files instead of %d" % (what, len(r["files"]), len(reffiles)), replay)
            if r["left"]:
                R.violation("recovery-leaves-temp:debugdir:" + cls, "%s: left %s in TMPDIR" % (what, r["left"]), replay)
    log("[%s] %d directory orders realised on tmpfs, %d kills inside the emptying phase; removal orders observed: %s" % (
        name, stats["orders"], stats["kills"], [o["removed_in_order"] for o in stats["order_followed_by_garble"]]))
    shutil.rmtree(S0, ignore_errors=True); shutil.rmtree(DD0, ignore_errors=True); shutil.rmtree(shm, ignore_errors=True)
    stats["files_in_debugdir"] = len(reffiles); stats["real_kills"] = stats["kills"]; stats["crash_states"] = 0
    return stats

import itertools
total_ops = total_runs = total_kills = 0; hits = set(); allb = set()
def prep_none(root): pass
def prep_no_tool(root):
    shutil.rmtree(os.path.join(root, "garblecache", "tool"), ignore_errors=True)
def _foreign_linker(root):
    # a linker that really is another one: the toolchain's unpatched cmd/link (binaries linked with it differ, and crash at start)
    dst = os.path.join(root, "garblecache", "tool", "link")
    try: os.remove(dst)
    except OSError: pass
    shutil.copyfile(os.path.join(GOROOT_TC, "pkg", "tool", "linux_amd64", "link"), dst); os.chmod(dst, 0o755)
def prep_stale_stamp(root):
    _foreign_linker(root)
    write(os.path.join(root, "garblecache", "tool", "link.version"), "go1.26.0 stale\n")
if tier == "quick":
    # quick: the standard library's entries stay in both caches, so the builds are short; for every class of boundary (syscall, normalised path) of the user
    # packages' entries and of the output its first and last occurrence plus every 4th boundary, and every boundary inside GARBLE_CACHE/tool for both install modes
    SC = [("A-user-packages-cold", prep_none, False, sel_quick_classes),
          ("B-linker-absent-rename", prep_no_tool, False, lambda ops: sel_tool(ops, 10**9)),
          ("C-linker-stale-copy", prep_stale_stamp, True, lambda ops: sel_tool(ops, 10**9))]
else:
    SC = [("A-user-packages-cold", prep_none, False, sel_all_but_mkdirs),
          ("A2-entries-cold", prep_no_garble_entries, False, sel_all_but_mkdirs),
          ("B-linker-cold-rename", prep_no_garblecache, False, lambda ops: sel_tool(ops, 5)),
          ("C-linker-stale-copy", prep_stale_linker, True, lambda ops: sel_tool(ops, 5))]
ONLY = os.environ.get("VERIF_C18_ONLY")   # debugging aid: run one scenario (A, B, C or D); the evidence then says so
if ONLY: SC = [sc for sc in SC if sc[0].startswith(ONLY)]
for name, prep, shm, sel in SC:
    o, r, k, h, a = scenario(name, prep, shm, sel)
    total_ops += o; total_runs += r; total_kills += k; hits |= h; allb |= a
ddrep = scenario_debugdir() if ONLY in (None, "D") else {"crash_states": 0, "real_kills": 0, "skipped": True}
total_runs += ddrep["crash_states"] + ddrep["real_kills"]

R.finish({
    "evaluations": total_runs,
    "distinct_nontrivial": len(hits),
    "rule": "real `garble build -p 1` of a 2-package module under a ptrace supervisor that numbers every file-system mutation (open for write/create, write, rename, unlink, mkdir, truncate, chmod, utimens...) "
            "touching GOCACHE, GARBLE_CACHE or the output, and in kill mode SIGKILLs the whole process tree just before mutation K; start states: " + ", ".join(n for n, _, _, _ in SC) + " "
            "(A: user packages cold; A2: all of GARBLE_CACHE/build empty; B: patched linker absent, rename install; C: another linker (the unpatched cmd/link) under a stale stamp, with TMPDIR on another file system = in-place copy install); after each kill the same command is run again on the surviving caches; oracle: exit 0 and binary = uninterrupted reference; "
            "distinct_nontrivial = distinct (syscall, normalised path) boundaries actually killed at. "
            "D: `garble -debugdir=<owned, populated dir> build` with the directory rebuilt on tmpfs once per permutation of its top-level entries (directory order = environment answer; quick: sentinel listed first / in the middle / last), "
            "killed for real before the 2nd mutation, at every top-level boundary, in the middle and at the end of the emptying phase, each followed by the same build again",
    "samples": [list(h) for h in sorted(hits)[:6]],
    "mutations_in_uninterrupted_builds": total_ops, "kill_runs": total_runs, "kills_effective": total_kills,
    "owned_debugdir_scenario": ddrep,
    "distinct_boundaries_in_log_runs": len(allb), "distinct_boundaries_killed_at": len(hits), "deadline_hit": dl.hit,
}, assumptions=["a kill between two file-system mutations leaves the same persistent state as a kill at the later boundary", "one schedule (-p 1) per start state; a single write torn by SIGKILL is not produced (C07 covers truncation)"],
   exhaustive=(tier != "quick" and not dl.hit and not ONLY))
