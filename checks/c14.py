#!/usr/bin/env python3
"""C14: GOGARBLE selects exactly which packages are obfuscated (engine A: all subsets of a module's packages)."""
import sys, os, itertools
sys.path.insert(0, os.path.join(os.path.dirname(os.path.abspath(__file__)), "..", "lib"))
from vlib import *

tier = tier_arg()
R = Result("C14", tier, "exploration")
g = Garble(name="c14")
M = "example.com/qzgg"
PK = {"a": M + "/a", "b": M + "/b", "c": M + "/c", "bx": M + "/bx", "sub": M + "/b/sub"}
IMPORTS = {"a": ["b", "bx"], "b": ["c", "sub"], "c": [], "bx": ["c"], "sub": ["c"]}
def mk(pkgs_extra=""):
    files = {"go.mod": "module %s\n\ngo 1.26\n" % M}
    for k, ip in PK.items():
        name = "p" + k
        imps = "".join('\t"%s"\n' % PK[d] for d in IMPORTS[k])
        calls = " + ".join(["len(qz%sLit)" % k] + ["p%s.Qz%sFuncKx(n)" % (d, d.title()) for d in IMPORTS[k]])
        files["%s/qz%sfile.go" % (ip[len(M) + 1:], k)] = (
            "package %s\n\nimport (\n%s)\n\ntype Qz%sTypeKx struct {\n\tQz%sFieldKx int\n\tqz%sHidden string\n}\n\nvar qz%sLit = \"qzliteral-%s-marker-Kx\"\n\n"
            "func Qz%sFuncKx(n int) int {\n\tv := Qz%sTypeKx{n, qz%sLit}\n\treturn v.Qz%sFieldKx + len(v.qz%sHidden) + qz%sUnexpKx(%s)\n}\n\n"
            "func qz%sUnexpKx(n int) int {\n\tif n > 1000000 {\n\t\tpanic(\"qzpanic-%s\")\n\t}\n\treturn n\n}\n" % (name, imps, k.title(), k.title(), k, k, k, k.title(), k.title(), k, k.title(), k, k, calls, k, k))
    files["main.go"] = "package main\n\nimport (\n\t\"os\"\n\t\"strconv\"\n\n\tpa \"%s\"\n)\n\nfunc main() { os.Stdout.WriteString(strconv.Itoa(pa.QzAFuncKx(len(os.Args))) + \"\\n\") }\n" % PK["a"]
    return files
FILES = mk()
keys = sorted(PK)
def markers(k):
    return {"func": "Qz%sFuncKx" % k.title(), "unexp": "qz%sUnexpKx" % k, "file": "qz%sfile.go" % k, "type": "Qz%sTypeKx" % k.title(), "lit": "qzliteral-%s-marker-Kx" % k}
# plain reference
d0 = g.newdir("ref"); write_module(d0, FILES)
p0 = g.go(["build", "-trimpath", "-o", "plain", "."], d0)
if p0.returncode != 0: log("generator bug", p0.stderr.decode()); sys.exit(2)
refout = exec_bin(d0 + "/plain").stdout
pdata = read(d0 + "/plain", "rb")
vac = sum(1 for k in keys for n, m in markers(k).items() if n in ("func", "file", "lit") and m.encode() in pdata)
if vac < 3 * len(keys): log("FATAL: markers not all present in the plain build (%d)" % vac); sys.exit(2)

def patterns_for(subset):
    """every applicable syntax for the subset of package keys."""
    paths = [PK[k] for k in subset]
    out = [("exact-list", ",".join(paths))] if paths else []
    s = set(subset)
    if s == set(keys): out += [("module-prefix", M), ("star", "*"), ("glob", M + "/*")]   # note: path.Match-like patterns are module-prefix based
    if s == {"b", "sub"}: out += [("prefix", PK["b"])]
    if s == {"b", "sub", "bx"}: out += [("glob-b*", M + "/b*")]
    if paths: out += [("with-std", ",".join(paths + ["fmt", "strconv"]))]
    return out
subsets = [tuple(k for i, k in enumerate(keys) if mask >> i & 1) for mask in range(1, 32)]
cases = []
for sub in subsets:
    pats = patterns_for(sub)
    if tier == "quick":
        pats = pats[:1]
    for name, val in pats:
        cases.append((sub, name, val, []))
if tier == "quick":
    pick = [("a",), ("b",), ("c",), ("a", "c"), ("b", "sub"), ("a", "b", "bx", "c", "sub"), ("bx", "sub"), ("a", "bx"), ("b", "bx", "sub")]
    cases = [c for c in cases if c[0] in [tuple(sorted(p)) for p in pick]]
    cases += [(tuple(keys), "module-prefix", M, []), (("b", "sub"), "prefix", PK["b"], []), (("a", "c"), "exact-list", PK["a"] + "," + PK["c"], ["-literals"])]
else:
    cases += [(sub, "exact-list", ",".join(PK[k] for k in sub), ["-literals"]) for sub in subsets[::3]]
    cases += [(sub, "exact-list", ",".join(PK[k] for k in sub), ["-tiny"]) for sub in subsets[::7]]
# the pattern semantics under test: a pattern matches a package path equal to it or below it (prefix with /), plus globs
def expected_match(val):
    """golang.org/x/mod/module.MatchPrefixPatterns: a pattern with n elements is matched (path.Match, element-wise here)
    against the first n elements of the package path."""
    import fnmatch
    m = set()
    for k, ip in PK.items():
        tel = ip.split("/")
        for p in val.split(","):
            pel = p.split("/")
            if p and len(pel) <= len(tel) and all(fnmatch.fnmatchcase(t, q) for t, q in zip(tel, pel)):
                m.add(k)
    return m
def run_case(ci):
    sub, sname, val, fl = cases[ci]
    d = g.newdir("c"); write_module(d, FILES)
    p = g.garble(fl, "build", ["-o", "out", "."], d, extra_env={"GOGARBLE": val})
    v = []
    label = "GOGARBLE=%s (%s) flags %s" % (val, sname, fl)
    if p.returncode != 0:
        return ci, [("build-fails", "%s: %s" % (label, short(p.stderr, 1000)))], None
    data = read(d + "/out", "rb")
    exp = expected_match(val)
    if set(sub) != exp and sname in ("exact-list", "with-std"):
        log("note: the pattern list", sub, "also selects sub-packages by prefix; reference selection is", sorted(exp))
    for k in keys:
        mk_ = markers(k)
        if k in exp:
            for n in ("func", "unexp", "file", "type"):
                if mk_[n].encode() in data:
                    v.append(("selected-package-not-obfuscated:" + n, "%s: %s of selected package %s is in the binary" % (label, mk_[n], PK[k])))
            if (PK[k] + ".").encode() in data:
                v.append(("selected-package-path-in-binary", "%s: import path %s is in the binary" % (label, PK[k])))
            if "-literals" in fl and mk_["lit"].encode() in data:
                v.append(("selected-package-literal-in-binary", "%s: literal of %s in the binary" % (label, PK[k])))
        else:
            want = [("func", (PK[k] + "." + mk_["func"]).encode())] + ([] if "-tiny" in fl else [("file", mk_["file"].encode())]) + [("lit", mk_["lit"].encode())]
            if "-tiny" in fl: want = [w for w in want if w[0] != "func"] + [("func", mk_["func"].encode())]
            for n, needle in want:
                if needle not in data:
                    v.append(("unselected-package-altered:" + n, "%s: %s of unselected package %s is no longer in the binary verbatim" % (label, needle.decode(), PK[k])))
    if "-tiny" not in fl:
        for rn in (b"runtime.main", b"runtime.gopanic", b"runtime.mallocgc"):
            if rn not in data:
                v.append(("runtime-obfuscated", "%s: %s missing from the binary" % (label, rn.decode())))
    o = exec_bin(d + "/out")
    if o.stdout != refout:
        v.append(("behaviour", "%s: prints %r, plain prints %r" % (label, o.stdout, refout)))
    shutil.rmtree(d, ignore_errors=True)
    return ci, v, len(exp)
done = 0; matched_sizes = set()
for ci, v, n in pmap(run_case, range(len(cases)), workers=4):
    done += 1
    if n is not None: matched_sizes.add((cases[ci][0], cases[ci][1]))
    for sig, what in v:
        R.violation(sig, what, {"module/" + k: c for k, c in FILES.items()} | {"replay.sh": "cd module && GOGARBLE='%s' garble %s build -o out .\n" % (cases[ci][2], " ".join(cases[ci][3]))})
# nothing matched => error, no binary
for val in ("example.com/nomatch", M + "x", "nosuch/*", M + "/a/deeper"):
    d = g.newdir("n"); write_module(d, FILES)
    p = g.garble([], "build", ["-o", "out", "."], d, extra_env={"GOGARBLE": val})
    done += 1
    if p.returncode == 0 or os.path.exists(d + "/out"):
        R.violation("no-match-accepted", "GOGARBLE=%s matches nothing but garble exits %d (binary written: %s)" % (val, p.returncode, os.path.exists(d + "/out")))
    elif b"GOGARBLE" not in p.stderr:
        R.violation("no-match-message", "GOGARBLE=%s: error does not mention GOGARBLE: %s" % (val, short(p.stderr, 300)))
# test variants: GOGARBLE=<pkg> must also cover the package's internal and external test variants ("foo [foo.test]", "foo_test")
TMOD = {"go.mod": "module example.com/qzt\n\ngo 1.26\n",
        "p/p.go": "package p\n\n//go:noinline\nfunc QzProdFuncKx(n int) int { return n + 1 }\n",
        "p/p_internal_test.go": "package p\n\nimport \"testing\"\n\n//go:noinline\nfunc qzInternalHelperKx(n int) int { return QzProdFuncKx(n) * 2 }\n\nfunc TestInternal(t *testing.T) {\n\tif qzInternalHelperKx(1) != 4 {\n\t\tt.Fatal(\"bad\")\n\t}\n}\n",
        "p/p_external_test.go": "package p_test\n\nimport (\n\t\"testing\"\n\n\t\"example.com/qzt/p\"\n\t\"example.com/qzt/q\"\n)\n\n//go:noinline\nfunc qzExternalHelperKx(n int) int { return p.QzProdFuncKx(n) + q.QzOtherFuncKx(n) }\n\nfunc TestExternal(t *testing.T) {\n\tif qzExternalHelperKx(1) != 5 {\n\t\tt.Fatal(\"bad\")\n\t}\n}\n",
        "q/q.go": "package q\n\n//go:noinline\nfunc QzOtherFuncKx(n int) int { return n + 2 }\n"}
for val, sel in (("example.com/qzt/p", {"QzProdFuncKx", "qzInternalHelperKx", "qzExternalHelperKx"}), ("example.com/qzt/q", {"QzOtherFuncKx"}), ("example.com/qzt", {"QzProdFuncKx", "qzInternalHelperKx", "qzExternalHelperKx", "QzOtherFuncKx"})):
    d = g.newdir("tv"); write_module(d, TMOD)
    p = g.garble([], "test", ["-c", "-o", "test.bin", "./p"], d, extra_env={"GOGARBLE": val})
    done += 1
    if p.returncode != 0:
        R.violation("test-variant-build-fails", "GOGARBLE=%s garble test -c ./p fails: %s" % (val, short(p.stderr, 600)), {"module/" + k: c for k, c in TMOD.items()}); continue
    data = read(d + "/test.bin", "rb")
    for name in ("QzProdFuncKx", "qzInternalHelperKx", "qzExternalHelperKx", "QzOtherFuncKx"):
        present = name.encode() in data
        if name in sel and present:
            R.violation("test-variant-not-obfuscated:" + name, "GOGARBLE=%s: %s of a selected package's test variant is in the test binary" % (val, name), {"module/" + k: c for k, c in TMOD.items()})
        if name not in sel and not present:
            R.violation("test-variant-unselected-altered:" + name, "GOGARBLE=%s: %s of an unselected package is no longer in the test binary" % (val, name), {"module/" + k: c for k, c in TMOD.items()})
    o = exec_bin(d + "/test.bin", ["-test.v"], cwd=d)
    if b"PASS" not in o.stdout or o.returncode != 0:
        R.violation("test-variant-behaviour", "GOGARBLE=%s: the garbled test binary fails: %s" % (val, short(o.stdout + o.stderr, 500)))
# reflection across the boundary: an unselected package wraps a type of a selected one and only the wrapper is reflected
RMOD = {"go.mod": "module example.com/qzr\n\ngo 1.26\n",
        "cmd/app/main.go": "package main\n\nimport (\n\t\"encoding/json\"\n\t\"fmt\"\n\n\t\"example.com/qzr/model\"\n\t\"example.com/qzr/wire\"\n)\n\nfunc main() {\n\te := wire.Envelope{Seq: 7, Body: model.Reading{Sensor: \"probe-a\", Value: 3, Unit: model.Unit{Symbol: \"C\"}}}\n\tb, _ := json.Marshal(e)\n\tfmt.Println(string(b))\n\tvar back wire.Envelope\n\terr := json.Unmarshal(b, &back)\n\tfmt.Println(err, back.Seq, back.Body.Sensor, back.Body.Value, back.Body.Unit.Symbol)\n}\n",
        "wire/wire.go": "package wire\n\nimport \"example.com/qzr/model\"\n\ntype Envelope struct {\n\tSeq  int\n\tBody model.Reading\n}\n",
        "model/model.go": "package model\n\ntype Reading struct {\n\tSensor string\n\tValue  int\n\tUnit   Unit\n}\n\ntype Unit struct{ Symbol string }\n"}
for val, sig in (("example.com/qzr/model,example.com/qzr/cmd", "reflect-across-boundary"), ("example.com/qzr/model", "reflect-names-lost-when-main-unselected"), ("example.com/qzr/wire,example.com/qzr/cmd", "reflect-across-boundary")):
    d = g.newdir("rb"); write_module(d, RMOD)
    p0 = g.go(["build", "-o", "plain", "./cmd/app"], d)
    p = g.garble([], "build", ["-o", "out", "./cmd/app"], d, extra_env={"GOGARBLE": val})
    done += 1
    if p0.returncode != 0: log("generator bug", p0.stderr.decode()); sys.exit(2)
    if p.returncode != 0:
        R.violation(sig + ":build-fails", "GOGARBLE=%s: %s" % (val, short(p.stderr, 500)), {"module/" + k: c for k, c in RMOD.items()})
    elif exec_bin(d + "/out").stdout != exec_bin(d + "/plain").stdout:
        R.violation(sig, "GOGARBLE=%s: reflection output differs: %r vs plain %r" % (val, exec_bin(d + "/out").stdout[:300], exec_bin(d + "/plain").stdout[:300]), {"module/" + k: c for k, c in RMOD.items()})
# boundary: identical structs converted between a selected and an unselected package
BMOD = {"go.mod": "module example.com/qzb\n\ngo 1.26\n",
        "main.go": "package main\n\nimport (\n\t\"fmt\"\n\n\t\"example.com/qzb/lib\"\n\t\"example.com/qzb/other\"\n)\n\nfunc main() { fmt.Println(other.Show(other.Same(lib.Same{A: 1, B: \"x\"})), lib.Get(other.Make()).A) }\n",
        "lib/lib.go": "package lib\n\ntype Same struct {\n\tA int\n\tB string\n}\n\ntype Getter interface{ Get() int }\n\nfunc Get(v struct {\n\tA int\n\tB string\n}) Same {\n\treturn Same(v)\n}\n",
        "other/other.go": "package other\n\ntype Same struct {\n\tA int\n\tB string\n}\n\nfunc Show(s Same) string { return s.B }\n\nfunc Make() struct {\n\tA int\n\tB string\n} {\n\treturn struct {\n\t\tA int\n\t\tB string\n\t}{2, \"y\"}\n}\n"}
for val in ("example.com/qzb/lib", "example.com/qzb/other,example.com/qzb"):
    d = g.newdir("bd"); write_module(d, BMOD)
    p0 = g.go(["build", "-o", "plain", "."], d)
    p = g.garble([], "build", ["-o", "out", "."], d, extra_env={"GOGARBLE": val})
    done += 1
    if p0.returncode != 0: log("generator bug", p0.stderr.decode()); sys.exit(2)
    if p.returncode != 0:
        R.violation("struct-conversion-across-boundary", "GOGARBLE=%s: identical structs of a selected and an unselected package can no longer be converted: %s" % (val, short(p.stderr, 500)),
                    {"module/" + k: c for k, c in BMOD.items()})
    elif exec_bin(d + "/out").stdout != exec_bin(d + "/plain").stdout:
        R.violation("struct-conversion-across-boundary-output", "GOGARBLE=%s: output differs" % val)
R.finish({
    "evaluations": done,
    "distinct_nontrivial": len(matched_sizes),
    "rule": "a module of 5 packages importing each other (a->b->c, a->bx->c, b->b/sub->c); %s subsets of the packages expressed as GOGARBLE pattern lists (exact comma lists, module prefix, package prefix, globs, lists with "
            "extra std patterns); per package marker names (exported/unexported func, type, file name, literal); oracle: selected packages' markers absent, unselected packages' qualified function name, file name and literal present "
            "verbatim, runtime names intact, output = plain build; patterns matching nothing are rejected; identical structs converted across the boundary; distinct_nontrivial = distinct (subset, syntax) partitions built"
            % ("all 31 non-empty" if tier != "quick" else "12 representative"),
    "samples": [{"subset": c[0], "syntax": c[1], "GOGARBLE": c[2], "flags": c[3]} for c in cases[:4]],
    "partitions": len(cases),
}, assumptions=["substring scan of the binary", "pattern semantics assumed for expectations: exact path, path prefix at a slash, glob"], exhaustive=(tier != "quick"))
