#!/usr/bin/env python3
"""C05: obfuscated literals evaluate to their original values (engine B unit seam + engine A contexts)."""
import sys, os, base64
sys.path.insert(0, os.path.join(os.path.dirname(os.path.abspath(__file__)), "..", "lib"))
from vlib import *

tier = tier_arg()
R = Result("C05", tier, "exploration")
g = Garble(name="c05")
OBFMAP = "p0=0,p1=1,p2=2,p3=3,p4=4"
OBFNAMES = ["simple", "swap", "split", "shuffle", "seed"]

# ---- unit layer
harness = build_garble(tags="garble_testing", overlay={os.path.join(REPO, "internal/verifc05/main.go"): os.path.join(VERIF, "harness/c05/main.go")},
                       name="c05harness", pkg="./internal/verifc05")
def b64(b): return base64.b64encode(b).decode()
def content(n, cls):
    if cls == "allbytes": return bytes((i * 37 + 11) % 256 for i in range(n))
    if cls == "nul": return bytes(n)
    if cls == "ff": return b"\xff" * n
    if cls == "quotes": return (b"\"'`\\\n\r\t " * (n // 8 + 1))[:n]
    if cls == "utf8bad": return (b"\xc3\x28\xe2\x82\xff\xfe ok" * (n // 9 + 1))[:n]
    if cls == "text": return (b"The quick brown fox jumps over the lazy dog. " * (n // 40 + 1))[:n]
    raise ValueError(cls)
combos = []
FORMS_Q = ["string", "slice", "ptrarray"]
FORMS_T = ["string", "folded", "arg", "slice", "array", "ptrslice", "ptrarray"]
for obf in range(5):
    # deviation-1 exploration around a PRNG base
    for form in (FORMS_Q if tier == "quick" else FORMS_T):
        for dlen in ([9] if tier == "quick" else [8, 9, 16]):
            combos.append({"obf": obf, "form": form, "data": b64(content(dlen, "allbytes")), "base": "prng:1",
                           "max_occ": 2 if tier == "quick" else 4, "n_alt": 5 if tier == "quick" else 11,
                           "dev2": tier != "quick" and form in ("string", "slice") and dlen == 9, "all_pos": False})
    # boundary layer: lengths x content classes x base scripts (no deviations)
    for form in (["string", "slice"] if tier == "quick" else FORMS_T):
        for dlen in [7, 8, 255, 256, 257, 2048, 2049]:
            for cls in (["allbytes", "quotes"] if tier == "quick" else ["allbytes", "nul", "ff", "quotes", "utf8bad", "text"]):
                bases = ["zero", "max", "prng:7"] if tier == "quick" else ["zero", "max", "count"] + ["prng:%d" % s for s in range(16)]
                if dlen in (7, 2049): bases = ["prng:1"]
                if tier == "quick" and dlen >= 2048 and cls != "allbytes": continue
                for base in bases:
                    combos.append({"obf": obf, "form": form, "data": b64(content(dlen, cls)), "base": base, "max_occ": 0, "n_alt": 0, "dev2": False, "all_pos": False})
# full every-position deviation on the smallest instance of each obfuscator (thorough)
if tier != "quick":
    for obf in range(5):
        combos.append({"obf": obf, "form": "string", "data": b64(content(8, "text")), "base": "prng:2", "max_occ": 0, "n_alt": 11, "dev2": False, "all_pos": True})
outdir = os.path.join(g.root, "lits")
nshard_in = NCPU
def gen(i):
    sub = combos[i::nshard_in]
    od = os.path.join(outdir, "g%d" % i)
    p = run([harness], env=g.env({"GARBLE_TEST_LITERALS_OBFUSCATOR_MAP": OBFMAP}), input=json.dumps({"outdir": od, "shard_size": 250, "combos": sub}).encode(), timeout=3600)
    if p.returncode != 0:
        log("harness failed:", p.stderr.decode()[-3000:]); os._exit(2)
    return od, json.loads(p.stdout)
gens = pmap(gen, range(nshard_in))
instances = sum(r["instances"] for _, r in gens)
draws = sum(r["draws_total"] for _, r in gens)
untouched = sum(r["untouched_ok"] for _, r in gens)
inconclusive = [d for _, r in gens for d in (r.get("inconclusive") or [])]
if inconclusive: log("inconclusive (scripted stream made the obfuscator loop past the draw budget): %d, e.g. %s" % (len(inconclusive), inconclusive[:3]))
site_dev, site_vals = {}, {}
for od, r in gens:
    for s, n in (r["site_deviations"] or {}).items(): site_dev[s] = site_dev.get(s, 0) + n
    for s, n in (r["site_distinct_values"] or {}).items(): site_vals[s] = max(site_vals.get(s, 0), n)
    for v in r["violations"] or []:
        R.violation(v["sig"], v["what"])
log("unit layer: %d combos -> %d instances, %d draws on base traces, %d rand call sites deviated" % (len(combos), instances, draws, len(site_dev)))
shards = []
for od, r in gens:
    for s in range(r["shards"]):
        shards.append((os.path.join(od, "shard%03d" % s), r))
def desc_of(idstr, od_r):
    return od_r["descs"][int(idstr)]
def run_shard(sh):
    d, r = sh
    e = g.env({"GOFLAGS": "-mod=mod"})
    p = run(["go", "build", "-o", "lits", "."], cwd=d, env=e, timeout=3000)
    if p.returncode != 0:
        return ("compile", p.stderr.decode(errors="replace"), sh)
    o = exec_bin(d + "/lits", timeout=600)
    return ("run", o.stdout.decode(errors="replace") + ("\nEXIT %d %s" % (o.returncode, o.stderr.decode(errors="replace")[-2000:]) if o.returncode else ""), sh)
compiled = 0
for kind, out, (d, r) in pmap(run_shard, shards, workers=8):
    if kind == "compile":
        # attribute compile errors to instances via file names lit_<id>.go
        ids = sorted(set(re.findall(r"lit_(\d+)\.go", out)))
        for i in ids[:5] or ["?"]:
            dsc = r["descs"][int(i)] if i != "?" else "?"
            m = re.match(r"obf=(\d) form=(\w+)", dsc)
            sig = "does-not-compile:%s:%s" % (OBFNAMES[int(m.group(1))], m.group(2)) if m else "does-not-compile"
            src = read(os.path.join(d, "lit_%s.go" % i)) if i != "?" else ""
            R.violation(sig, "obfuscated literal does not compile: %s\n%s" % (dsc, short(out, 1500)), {"lit.go": src})
        continue
    compiled += 1
    if "DONE 0" not in out:
        bad = re.findall(r"BAD (\d+) (.*)", out)
        if not bad:
            R.violation("shard-crashed", "literal program crashed: " + short(out, 1500))
        for i, got in bad[:20]:
            dsc = r["descs"][int(i)]
            m = re.match(r"obf=(\d) form=(\w+) len=(\d+)", dsc)
            site = re.search(r"dev2?@\d+\(([^)]*)\)", dsc)
            sig = "wrong-value:%s:%s%s" % (OBFNAMES[int(m.group(1))], m.group(2), (":" + site.group(1)) if site else "")
            R.violation(sig, "literal decodes to %s: %s" % (got[:200], dsc), {"lit.go": read(os.path.join(d, "lit_%s.go" % i)), "desc.txt": dsc})
shutil.rmtree(outdir, ignore_errors=True)

# ---- end-to-end layer: syntactic contexts x -literals through the real CLI, each obfuscator forced in turn
CTX = r'''package main

import (
	"fmt"
	"os"
	"strings"

	"example.com/c05e/lib"
)

const constStr = "constant string value 01"
const (
	typedConst lib.Name = "typed constant value 02"
	sizeConst           = len("array length literal 03")
)

var xSet = "ldflags default value 04"
var xUnset = "ldflags untouched value 05"
var arr [sizeConst]int
var arr2 [len("another length 06")]byte
var pkgVar = "package level value 07" + " and folded 08"
var byteVar = []byte("converted to bytes 09")
var byteLit = []byte{'b', 'y', 't', 'e', ' ', 'l', 'i', 't', ' ', '1', '0'}
var arrLit = [12]byte{'a', 'r', 'r', 'a', 'y', ' ', 'l', 'i', 't', ' ', '1', '1'}
var ptrLit = &[]byte{'p', 't', 'r', ' ', 's', 'l', 'i', 'c', 'e', ' ', '1', '2'}
var ptrArr = &[10]byte{'p', 't', 'r', ' ', 'a', 'r', 'r', ' ', '1', '3'}
var mapVar = map[string]string{"map key number 14": "map value number 15"}
var structVar = struct {
	A string `tag:"struct tag text 16"`
	B []string
}{"struct field value 17", []string{"slice element 18", "slice element 19"}}

type named string

var namedVar named = "named type value 20"

//go:nosplit
func nosplit() string { return "nosplit function 21" }

func generic[T any](v T, s string) string { return fmt.Sprint(v) + s }

func variadic(parts ...string) string { return strings.Join(parts, "|") }

func init() { fmt.Println("init literal value 22") }

func sw(s string) int {
	switch s {
	case "case label value 23":
		return 1
	case constStr:
		return 2
	case "case " + "folded label 24":
		return 3
	}
	return 0
}

func main() {
	fmt.Println(constStr, typedConst, sizeConst, len(arr), len(arr2), xSet, xUnset)
	fmt.Println(pkgVar, string(byteVar), string(byteLit), string(arrLit[:]), string(*ptrLit), string(ptrArr[:]))
	fmt.Println(mapVar["map key number 14"], structVar.A, structVar.B, namedVar, nosplit())
	fmt.Println(generic(1, "generic arg value 25"), generic("generic T value 26", ""), variadic("variadic one 27", "variadic two 28"))
	fmt.Println(sw("case label value 23"), sw(constStr), sw("case folded label 24"), sw("none"))
	f := func() string { return "closure literal 29" }
	defer fmt.Println("deferred literal 30")
	go func(s string) {}("goroutine literal 31")
	fmt.Println(f(), lib.Get(), lib.Table[1], lib.Raw, len(os.Args), lib.Injected, lib.InjectedUnexp())
	fmt.Printf("%s %q\n", "format arg literal 32", "quoted\tliteral\n33 \x00\xff")
	var iface any = "interface literal 34"
	fmt.Println(iface, []string{"composite elem 35"}[0], [...]string{"array elem 36"}[0], strings.Repeat("ab", 4)+"concat with call 37")
	fmt.Println(`raw literal with "quotes" 38`, "short", "", "1234567", "12345678")
}
'''
LIB = r'''package lib

type Name string

var Table = []string{"lib table entry zero 40", "lib table entry one 41"}

const Raw = `lib raw constant 42`

var hidden = "lib hidden value 43"

var Injected = "lib default for injected var 45"

var injectedUnexp = "lib default for unexported injected var 46"

func InjectedUnexp() string { return injectedUnexp }

func Get() string { return hidden + "/" + string([]byte{'l', 'i', 'b', ' ', 'b', 'y', 't', 'e', 's', ' ', '4', '4'}) }
'''
e2e = 0
def e2e_case(case):
    binp, gflags, env, tag = case
    d = g.newdir("e2e")
    write_module(d, {"main.go": CTX + "// " + tag + "\n", "lib/lib.go": LIB}, modpath="example.com/c05e")
    ld = "-ldflags=-X=main.xSet=injected_value_99 -X=example.com/c05e/lib.Injected=lib_injected_77 -X=example.com/c05e/lib.injectedUnexp=lib_injected_78"
    p0 = g.go(["build", "-o", "plain", ld, "."], d)
    gg = Garble(binpath=binp, name="c05") if binp else g
    p = gg.garble(gflags, "build", ["-o", "out", ld, "."], d, extra_env=env)
    if p0.returncode != 0:
        log("generator bug", p0.stderr.decode()); os._exit(2)
    if p.returncode != 0:
        return ("e2e-build-fails:" + tag.split()[0], "garble %s build fails (%s): %s" % (gflags, tag, short(p.stderr, 1500)))
    a, b = exec_bin(d + "/plain"), exec_bin(d + "/out")
    if a.stdout != b.stdout or a.returncode != b.returncode:
        return ("e2e-output:" + tag.split()[0], "garble %s (%s): output differs\n%s\n--- plain ---\n%s" % (gflags, tag, short(b.stdout, 1500), short(a.stdout, 1500)))
    return None
cases = []
tb = build_garble(tags="garble_testing", name="garble-testing")
for k in range(5):
    if tier == "quick" and k not in (SEED % 5, (SEED + 2) % 5): continue   # each forced obfuscator is a separate garbled std; quick takes two, rotated by VERIF_SEED
    for sd in (["-seed=AAAAAAAAAAA"] if tier == "quick" else ["-seed=AAAAAAAAAAA", "-seed=BBBBBBBBBBBB", "-seed=c2VlZHNlZWRzZWVk"]):
        cases.append((tb, ["-literals", sd], {"GARBLE_TEST_LITERALS_OBFUSCATOR_MAP": "main=%d,lib=%d" % (k, k)}, "forced-%s %s" % (OBFNAMES[k], sd)))
for sd in ([[], ["-seed=AAAAAAAAAAA"]] if tier == "quick" else [[], ["-tiny"]] + [["-seed=" + base64.b64encode(bytes([i] * 9)).decode().rstrip("=")] for i in range(1, 9)]):
    cases.append((None, ["-literals"] + sd, None, "mixed " + " ".join(sd)))
for res in pmap(e2e_case, cases, workers=6):
    e2e += 1
    if res:
        R.violation(res[0], res[1], {"module/main.go": CTX, "module/lib/lib.go": LIB})

R.finish({
    "evaluations": instances + e2e,
    "distinct_nontrivial": instances,
    "rule": "unit seam: real literals.Obfuscate under a scripted math/rand Source, for each of the 5 obfuscators x literal forms x data; base scripts = PRNG streams / all-zero / all-max / counting; "
            "deviation-1: for every rand call site, its first k draws are each replaced by every value of the answer alphabet (k=%d, %d values); thorough adds every-position deviation on the "
            "smallest instance and deviation-2 on operator/index/key sites; every obfuscated literal is compiled by gc and run, comparing decoded bytes with the original; "
            "distinct_nontrivial = distinct (combo, script) instances compiled and executed; e2e: 44 literal contexts x forced obfuscator x seeds through the CLI" % (
                2 if tier == "quick" else 4, 5 if tier == "quick" else 11),
    "samples": [gens[0][1]["descs"][i] for i in range(0, min(len(gens[0][1]["descs"]), 400), 57)][:8],
    "combos": len(combos), "draws_on_base_traces": draws, "rand_call_sites_deviated": len(site_dev), "site_deviations": site_dev,
    "site_distinct_values": site_vals, "shards_compiled": compiled, "shards": len(shards), "out_of_window_untouched": untouched, "inconclusive_draw_budget": len(inconclusive), "inconclusive_examples": inconclusive[:5], "e2e_cases": e2e,
}, assumptions=["the gc compiler and runtime evaluate the emitted decode code faithfully", "draw values outside the 11-value alphabet and >2 simultaneous deviations are covered only through the PRNG base streams"],
   exhaustive=True)
