"""Function corpus for C11 (control-flow obfuscation). cf.go holds the functions carrying the directive placeholder
`//garble:controlflow @P@`; support.go holds helpers, types and the driver (main) that calls every function on an
argument grid and prints results, side-effect logs and panic values. cf.go imports nothing, so that removing the
function bodies never leaves an unused import behind."""

SUPPORT = r'''package main

import (
	"fmt"
	"os"
	"sort"
	"strings"
)

var trace []string

func logf(format string, a ...any) { trace = append(trace, fmt.Sprintf(format, a...)) }

func itoa(i int) string { return fmt.Sprint(i) }

type point struct{ X, Y int }

type shape interface{ Area() int }

type rect struct{ W, H int }

func (r rect) Area() int { return r.W * r.H }

type circle struct{ R int }

func (c *circle) Area() int { return 3 * c.R * c.R }

type myErr struct{ Code int }

func (e myErr) Error() string { return "myErr" + itoa(e.Code) }

type acc struct{ total int }

func call(name string, f func() any) {
	trace = nil
	defer func() {
		if r := recover(); r != nil {
			fmt.Printf("  %s PANIC %v | trace=%s\n", name, r, strings.Join(trace, ","))
		}
	}()
	v := f()
	fmt.Printf("  %s = %v | trace=%s\n", name, v, strings.Join(trace, ","))
}

func sortedKeys(m map[string]int) []string {
	var ks []string
	for k := range m {
		ks = append(ks, k)
	}
	sort.Strings(ks)
	return ks
}

func section(name string) { fmt.Println("== fn", name) }

func main() {
	ints := []int{-3, 0, 1, 2, 5, 9}
	section("cfLoopSum")
	for _, n := range ints {
		call(itoa(n), func() any { return cfLoopSum(n) })
	}
	section("cfNested")
	for _, n := range []int{0, 2, 5} {
		for _, m := range []int{0, 1, 4} {
			call(itoa(n)+","+itoa(m), func() any { return cfNested(n, m) })
		}
	}
	section("cfIfChain")
	for _, n := range []int{-5, 0, 3, 10, 99} {
		call(itoa(n), func() any { return cfIfChain(n) })
	}
	section("cfSwitchFall")
	for _, n := range []int{0, 1, 2, 3, 4} {
		call(itoa(n), func() any { return cfSwitchFall(n) })
	}
	section("cfRangeSlice")
	for _, xs := range [][]int{nil, {7}, {1, 2, 3, 4}} {
		call(fmt.Sprint(xs), func() any { a, b := cfRangeSlice(xs); return []int{a, b} })
	}
	section("cfRangeArray")
	call("-", func() any { return cfRangeArray() })
	section("cfRangeStringASCII")
	for _, s := range []string{"", "a", "hello"} {
		call(s, func() any { return cfRangeStringASCII(s) })
	}
	section("cfRangeStringUTF8")
	for _, s := range []string{"aé日b", "\xffz", "ü"} {
		call(fmt.Sprintf("%q", s), func() any { return cfRangeStringUTF8(s) })
	}
	section("cfRangeMapRead")
	call("m", func() any { return cfRangeMapRead(map[string]int{"a": 1, "b": 2, "c": 39}) })
	section("cfRangeChan")
	for _, n := range []int{0, 1, 4} {
		call(itoa(n), func() any { return cfRangeChan(n) })
	}
	section("cfRangeInt")
	for _, n := range []int{0, 1, 6} {
		call(itoa(n), func() any { return cfRangeInt(n) })
	}
	section("cfSelect")
	for _, k := range []int{0, 1, 2} {
		call(itoa(k), func() any { return cfSelect(k) })
	}
	section("cfSelectBlocking")
	call("-", func() any { return cfSelectBlocking(3) })
	section("cfDefer")
	for _, n := range []int{0, 1, 3} {
		call(itoa(n), func() any { return cfDefer(n) })
	}
	section("cfDeferRecoverNamed")
	for _, n := range []int{0, 2, 5} {
		call(itoa(n), func() any { a, b := cfDeferRecoverNamed(n); return fmt.Sprint(a, b) })
	}
	section("cfDeferOrderLoop")
	call("3", func() any { return cfDeferOrderLoop(3) })
	section("cfClosureCapture")
	for _, n := range []int{0, 3} {
		call(itoa(n), func() any { return cfClosureCapture(n) })
	}
	section("cfClosureReturn")
	call("4", func() any { f := cfClosureReturn(4); return []int{f(), f(), f()} })
	section("cfMultiResult")
	for _, n := range []int{1, 7} {
		call(itoa(n), func() any { a, b, c := cfMultiResult(n, 3); return fmt.Sprint(a, b, c) })
	}
	section("cfSwapLoop")
	for _, n := range []int{0, 1, 2, 3} {
		call(itoa(n), func() any { a, b := cfSwapLoop(n); return []int{a, b} })
	}
	section("cfRotate3")
	for _, n := range []int{0, 1, 2, 4} {
		call(itoa(n), func() any { a, b, c := cfRotate3(n); return []int{a, b, c} })
	}
	section("cfFib")
	for _, n := range []int{0, 1, 2, 10} {
		call(itoa(n), func() any { return cfFib(n) })
	}
	section("cfGcd")
	call("84,36", func() any { return cfGcd(84, 36) })
	call("17,5", func() any { return cfGcd(17, 5) })
	section("cfGeneric")
	call("ints", func() any { return cfGenericMax([]int{3, 9, 2}) })
	call("strs", func() any { return cfGenericMax([]string{"b", "zz", "a"}) })
	section("cfMethodValue")
	call("-", func() any { return rect{2, 5}.cfScaled(3) })
	section("cfMethodPtr")
	call("-", func() any { a := &acc{}; a.cfAdd(2); a.cfAdd(5); return a.total })
	section("cfVariadic")
	call("none", func() any { return cfVariadic() })
	call("three", func() any { return cfVariadic(1, 2, 3) })
	section("cfPanicValue")
	for _, n := range []int{0, 1, 2, 3} {
		call(itoa(n), func() any { return cfPanicValue(n) })
	}
	section("cfRuntimePanics")
	for _, n := range []int{0, 1, 2, 3, 4} {
		call(itoa(n), func() any { return cfRuntimePanics(n, nil) })
	}
	section("cfShortCircuit")
	for _, a := range []int{0, 1, 3} {
		for _, b := range []int{0, 4, 9} {
			call(itoa(a)+","+itoa(b), func() any { return cfShortCircuit(a, b) })
		}
	}
	section("cfStringBuild")
	for _, n := range []int{0, 1, 5} {
		call(itoa(n), func() any { return cfStringBuild(n, "ab") })
	}
	section("cfSliceOps")
	call("-", func() any { return cfSliceOps([]int{1, 2, 3, 4, 5, 6}) })
	section("cfMapOps")
	call("-", func() any { m := cfMapOps([]string{"a", "b", "a", "c", "a"}); return fmt.Sprint(sortedKeys(m), m["a"], m["zz"]) })
	section("cfTypeSwitch")
	for i, v := range []any{1, "s", rect{1, 2}, &circle{2}, nil, 2.5, []int{1}, myErr{3}} {
		call(itoa(i), func() any { return cfTypeSwitch(v) })
	}
	section("cfTypeAssert")
	for i, v := range []any{rect{2, 2}, &circle{1}, 7} {
		call(itoa(i), func() any { return cfTypeAssert(v) })
	}
	section("cfStructOps")
	call("-", func() any { return cfStructOps(point{1, 2}, 4) })
	section("cfGoto")
	for _, n := range []int{0, 3} {
		call(itoa(n), func() any { return cfGoto(n) })
	}
	section("cfBitOps")
	for _, n := range []int{0, 5, 255, -7} {
		call(itoa(n), func() any { return cfBitOps(n) })
	}
	section("cfConversions")
	for _, n := range []int{0, 65, 300, -1} {
		call(itoa(n), func() any { return cfConversions(n) })
	}
	section("cfMatrix")
	call("-", func() any { return cfMatrix(3) })
	section("cfErrors")
	for _, n := range []int{0, 1, 2} {
		call(itoa(n), func() any { v, err := cfErrors(n); return fmt.Sprint(v, err) })
	}
	section("cfCollatz")
	for _, n := range []int{1, 6, 27} {
		call(itoa(n), func() any { return cfCollatz(n) })
	}
	section("cfBubble")
	call("-", func() any { return cfBubble([]int{5, 1, 4, 2, 8, 0}) })
	section("cfGoroutines")
	call("4", func() any { return cfGoroutines(4) })
	section("cfLabeledContinue")
	call("-", func() any { return cfLabeledContinue([][]int{{1, 2, -1, 9}, {3, 4}, {-1, 100}, {5}}) })
	section("cfNestedClosures")
	call("3", func() any { return cfNestedClosures(3) })
	section("cfPointerLoop")
	call("-", func() any { return cfPointerLoop(4) })
	if len(os.Args) > 5 {
		fmt.Println("never")
	}
}

func sendAll(ch chan<- int, n int) {
	for i := 0; i < n; i++ {
		ch <- i
	}
	close(ch)
}

func errOf(code int) error { return myErr{code} }

func fail(msg string) { panic(msg) }

func sq(ch chan<- int, i int, done chan<- bool) { ch <- i * i; done <- true }
'''

CF = r'''package main

//garble:controlflow @P@
func cfLoopSum(n int) int {
	s := 0
	for i := 0; i < n; i++ {
		s += i
		logf("i%d", i)
	}
	return s
}

//garble:controlflow @P@
func cfNested(n, m int) (r int) {
outer:
	for i := 0; i < n; i++ {
		for j := 0; j < m; j++ {
			if j == 2 {
				continue outer
			}
			if i == 3 {
				break outer
			}
			r += i*10 + j
		}
		logf("row%d", i)
	}
	return
}

//garble:controlflow @P@
func cfIfChain(x int) string {
	if x < 0 {
		return "neg"
	} else if x == 0 {
		return "zero"
	} else if x < 10 {
		logf("small")
		return "small"
	}
	return "big"
}

//garble:controlflow @P@
func cfSwitchFall(x int) (s string) {
	switch x {
	case 1:
		s += "one"
		fallthrough
	case 2:
		s += "two"
	case 3:
		s += "three"
	default:
		s += "d"
	}
	return
}

//garble:controlflow @P@
func cfRangeSlice(xs []int) (sum int, idx int) {
	idx = -1
	for i, x := range xs {
		sum += x * (i + 1)
		idx = i
	}
	return
}

//garble:controlflow @P@
func cfRangeArray() int {
	a := [4]int{1, 2, 3, 4}
	s := 0
	for i, v := range a {
		s += v * i
	}
	return s
}

//garble:controlflow @P@
func cfRangeStringASCII(s string) (n int) {
	for i, r := range s {
		n += (i + 1) * int(r)
	}
	return
}

//garble:controlflow @P@
func cfRangeStringUTF8(s string) (out []int) {
	for i, r := range s {
		out = append(out, i, int(r))
	}
	return
}

//garble:controlflow @P@
func cfRangeMapRead(m map[string]int) int {
	s := 0
	for _, v := range m {
		s += v
	}
	return s + len(m)
}

//garble:controlflow @P@
func cfRangeChan(n int) int {
	ch := make(chan int, n)
	sendAll(ch, n)
	s := 0
	for v := range ch {
		s += v + 1
	}
	return s
}

//garble:controlflow @P@
func cfRangeInt(n int) int {
	s := 0
	for i := range n {
		s += i * i
	}
	return s
}

//garble:controlflow @P@
func cfSelect(k int) string {
	a := make(chan int, 1)
	b := make(chan string, 1)
	if k == 0 {
		a <- 1
	} else if k == 1 {
		b <- "x"
	}
	select {
	case v := <-a:
		return "a" + itoa(v)
	case s := <-b:
		return "b" + s
	default:
		return "none"
	}
}

//garble:controlflow @P@
func cfSelectBlocking(n int) int {
	ch := make(chan int)
	done := make(chan bool)
	go sendAll(ch, n)
	total := 0
	go func() { done <- true }()
	got := false
	for !got || ch != nil {
		select {
		case v, ok := <-ch:
			if !ok {
				ch = nil
				continue
			}
			total += v + 10
		case <-done:
			got = true
			done = nil
		}
	}
	return total
}

//garble:controlflow @P@
func cfDefer(n int) (out string) {
	for i := 0; i < n; i++ {
		defer func(i int) { out += itoa(i) }(i)
	}
	return "r"
}

//garble:controlflow @P@
func cfDeferRecoverNamed(x int) (res int, err string) {
	defer func() {
		if r := recover(); r != nil {
			err = "recovered"
			res = -1
		}
	}()
	if x == 0 {
		fail("zero")
	}
	return 10 / x, "ok"
}

//garble:controlflow @P@
func cfDeferOrderLoop(n int) int {
	x := 1
	for i := 1; i <= n; i++ {
		defer logf("d%d", i)
		x *= 2
	}
	logf("end")
	return x
}

//garble:controlflow @P@
func cfClosureCapture(n int) int {
	c := 0
	inc := func() { c += 2 }
	for i := 0; i < n; i++ {
		inc()
	}
	return c
}

//garble:controlflow @P@
func cfClosureReturn(start int) func() int {
	v := start
	return func() int {
		v += 3
		if v%2 == 0 {
			return v
		}
		return -v
	}
}

//garble:controlflow @P@
func cfMultiResult(a, b int) (int, int, string) {
	if a > b {
		return a / b, a % b, "gt"
	}
	return b / a, b % a, "le"
}

//garble:controlflow @P@
func cfSwapLoop(n int) (int, int) {
	a, b := 1, 2
	for i := 0; i < n; i++ {
		a, b = b, a
	}
	return a, b
}

//garble:controlflow @P@
func cfRotate3(n int) (int, int, int) {
	a, b, c := 1, 2, 3
	for i := 0; i < n; i++ {
		a, b, c = b, c, a
	}
	return a, b, c
}

//garble:controlflow @P@
func cfFib(n int) int {
	a, b := 0, 1
	for i := 0; i < n; i++ {
		a, b = b, a+b
	}
	return a
}

//garble:controlflow @P@
func cfGcd(a, b int) int {
	for b != 0 {
		a, b = b, a%b
	}
	return a
}

type ordered interface{ ~int | ~string }

//garble:controlflow @P@
func cfGenericMax[T ordered](xs []T) T {
	var best T
	for i, x := range xs {
		if i == 0 || x > best {
			best = x
		}
	}
	return best
}

//garble:controlflow @P@
func (r rect) cfScaled(k int) int {
	if k <= 0 {
		return 0
	}
	return r.W*k + r.H*k
}

//garble:controlflow @P@
func (a *acc) cfAdd(n int) {
	for i := 0; i < n; i++ {
		a.total++
	}
}

//garble:controlflow @P@
func cfVariadic(xs ...int) int {
	if len(xs) == 0 {
		return -1
	}
	s := 0
	for _, x := range xs {
		s = s*10 + x
	}
	return s
}

//garble:controlflow @P@
func cfPanicValue(k int) int {
	switch k {
	case 1:
		panic("string value")
	case 2:
		panic(errOf(7))
	case 3:
		panic(point{1, 2})
	}
	return k
}

//garble:controlflow @P@
func cfRuntimePanics(k int, m map[string]int) int {
	xs := []int{1, 2, 3}
	switch k {
	case 1:
		return xs[k+5]
	case 2:
		return 10 / (k - 2)
	case 3:
		m["a"] = 1
	case 4:
		var p *point
		return p.X
	}
	return len(xs)
}

//garble:controlflow @P@
func cfShortCircuit(a, b int) bool {
	return a > 0 && b/a > 1 || b == 0
}

//garble:controlflow @P@
func cfStringBuild(n int, s string) string {
	out := ""
	for i := 0; i < n; i++ {
		if i%2 == 0 {
			out += s
		} else {
			out += itoa(i)
		}
	}
	return out + "|" + itoa(len(out))
}

//garble:controlflow @P@
func cfSliceOps(xs []int) []int {
	ys := make([]int, 0, 4)
	ys = append(ys, xs[1:4]...)
	zs := xs[2:4:5]
	zs = append(zs, 99)
	n := copy(ys, xs[4:])
	ys = append(ys, n, len(zs), cap(zs))
	return append(ys, zs...)
}

//garble:controlflow @P@
func cfMapOps(words []string) map[string]int {
	m := make(map[string]int)
	for _, w := range words {
		m[w]++
	}
	if _, ok := m["b"]; ok {
		delete(m, "b")
	}
	if v, ok := m["nope"]; !ok {
		m["miss"] = v
	}
	return m
}

//garble:controlflow @P@
func cfTypeSwitch(v any) string {
	switch x := v.(type) {
	case int:
		return "int" + itoa(x)
	case string:
		return "str" + x
	case shape:
		return "shape" + itoa(x.Area())
	case nil:
		return "nil"
	case error:
		return "err" + x.Error()
	default:
		return "other"
	}
}

//garble:controlflow @P@
func cfTypeAssert(v any) int {
	if s, ok := v.(shape); ok {
		return s.Area()
	}
	if r, ok := v.(rect); ok {
		return -r.W
	}
	return v.(int) * 2
}

//garble:controlflow @P@
func cfStructOps(p point, k int) point {
	q := &p
	for i := 0; i < k; i++ {
		q.X += i
		p.Y *= 2
	}
	arr := [2]point{p, {7, 8}}
	arr[1].X = arr[0].Y
	return point{arr[1].X + q.X, arr[1].Y}
}

//garble:controlflow @P@
func cfGoto(n int) int {
	i, s := 0, 0
loop:
	if i < n {
		s += i * 3
		i++
		goto loop
	}
	return s
}

//garble:controlflow @P@
func cfBitOps(x int) int {
	u := uint32(x)
	r := int(u>>3) ^ (x << 2) &^ 5
	if x&1 == 1 {
		r |= 64
	}
	return r % 1000
}

//garble:controlflow @P@
func cfConversions(n int) string {
	f := float64(n) / 4
	b := byte(n)
	r := rune(n)
	return itoa(int(f*2)) + ":" + itoa(int(b)) + ":" + string(r) + ":" + itoa(int(int8(n)))
}

//garble:controlflow @P@
func cfMatrix(n int) int {
	var m [3][3]int
	for i := 0; i < n; i++ {
		for j := 0; j < n; j++ {
			m[i][j] = i*n + j
		}
	}
	t := 0
	for i := range m {
		t += m[i][i] + m[i][2-i]
	}
	return t
}

//garble:controlflow @P@
func cfErrors(k int) (int, error) {
	if k == 0 {
		return 0, nil
	}
	if k == 1 {
		return -1, errOf(4)
	}
	var e error = errOf(9)
	if me, ok := e.(myErr); ok && me.Code > 5 {
		return me.Code, e
	}
	return 1, nil
}

//garble:controlflow @P@
func cfCollatz(n int) int {
	steps := 0
	for n != 1 {
		if n%2 == 0 {
			n /= 2
		} else {
			n = 3*n + 1
		}
		steps++
	}
	return steps
}

//garble:controlflow @P@
func cfBubble(xs []int) []int {
	n := len(xs)
	for i := 0; i < n; i++ {
		swapped := false
		for j := 0; j < n-1-i; j++ {
			if xs[j] > xs[j+1] {
				xs[j], xs[j+1] = xs[j+1], xs[j]
				swapped = true
			}
		}
		if !swapped {
			break
		}
	}
	return xs
}

//garble:controlflow @P@
func cfGoroutines(n int) int {
	ch := make(chan int, n)
	done := make(chan bool, n)
	for i := 0; i < n; i++ {
		go sq(ch, i, done)
	}
	for i := 0; i < n; i++ {
		<-done
	}
	close(ch)
	t := 0
	for v := range ch {
		t += v
	}
	return t
}

//garble:controlflow @P@
func cfLabeledContinue(rows [][]int) int {
	t := 0
rows:
	for i, row := range rows {
		for _, v := range row {
			if v < 0 {
				logf("skip%d", i)
				continue rows
			}
			if v > 50 {
				break rows
			}
			t += v
		}
		t *= 2
	}
	return t
}

//garble:controlflow @P@
func cfNestedClosures(n int) int {
	total := 0
	add := func(k int) func() {
		return func() {
			for i := 0; i < k; i++ {
				total += k
			}
		}
	}
	for i := 1; i <= n; i++ {
		add(i)()
	}
	return total
}

//garble:controlflow @P@
func cfPointerLoop(n int) int {
	var ps []*int
	for i := 0; i < n; i++ {
		v := i * i
		ps = append(ps, &v)
	}
	s := 0
	for _, p := range ps {
		*p += 1
		s += *p
	}
	return s
}
'''
