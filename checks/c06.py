#!/usr/bin/env python3
"""C06: cached builds never go stale (engine C: build/edit histories over a shared cache pair)."""
import sys, os, itertools
sys.path.insert(0, os.path.join(os.path.dirname(os.path.abspath(__file__)), "..", "lib"))
from vlib import *
from caches import *

tier = tier_arg()
R = Result("C06", tier, "exploration")
g = Garble(name="c06")
MODP = "example.com/c06"
SA, SB = "-seed=AAAAAAAAAAA", "-seed=BBBBBBBBBBBB"
# configuration alphabet: name -> (garble flags, env, go build flags)
ALPHA = {
    "default": ([], {}, []),
    "tiny": (["-tiny"], {}, []),
    "literals": (["-literals"], {}, []),
    "seedA": ([SA], {}, []),
    "seedB": ([SB], {}, []),
    # two seeds longer than 8 bytes that share their first 8 bytes (every seed byte takes part in name hashing)
    "seedLong1": (["-seed=AAECAwQFBgcI"], {}, []),
    "seedLong2": (["-seed=AAECAwQFBgcJ"], {}, []),
    "gogarble-lib": ([], {"GOGARBLE": MODP + "/lib"}, []),
    "gogarble-mod": ([], {"GOGARBLE": MODP}, []),
    "ctrlflow": ([], {"GARBLE_EXPERIMENTAL_CONTROLFLOW": "1"}, []),
    "tags": ([], {}, ["-tags=verift"]),
    "ldx1": ([], {}, ["-ldflags=-X=main.version=v1"]),
    "ldx2": ([], {}, ["-ldflags=-X=main.version=v2"]),
    "literals-ldx1": (["-literals"], {}, ["-ldflags=-X=main.version=v1"]),
    "literals-ldx2": (["-literals"], {}, ["-ldflags=-X=main.version=v2"]),
}
QUICK = ["default", "tiny", "literals", "seedLong1", "seedLong2", "gogarble-lib", "ctrlflow", "tags", "literals-ldx1"]
names = QUICK if tier == "quick" else list(ALPHA)

def sources(state):
    """state: dict pkg -> variant (0 = original)."""
    v = lambda p: state.get(p, 0)
    return {
        "main.go": "package main\n\nimport (\n\t\"fmt\"\n\n\t\"%s/lib\"\n)\n\nvar version = \"unset-default-version\"\n\ntype cfg struct {\n\tName string\n\tlevel int\n}\n\nfunc main() {\n\tc := cfg{\"main-literal-value-%d\", %d}\n\tfmt.Println(version, c.Name, c.level, lib.Describe(), extra())\n}\n" % (MODP, v("main"), v("main")),
        "extra.go": "//go:build !verift\n\npackage main\n\nfunc extra() string { return \"without-tag\" }\n",
        "extra_tag.go": "//go:build verift\n\npackage main\n\nfunc extra() string { return \"with-tag-verift\" }\n",
        "lib/lib.go": "package lib\n\nimport (\n\t\"encoding/json\"\n\t\"reflect\"\n\n\t\"%s/lib/leaf\"\n)\n\ntype Info struct {\n\tTitle string\n\tCount int\n}\n\nfunc Describe() string {\n\tb, _ := json.Marshal(Info{\"lib-literal-value-%d\", leaf.Count() + %d})\n\treturn string(b) + reflect.TypeOf(Info{}).Name() + reflect.TypeOf(leaf.Rec{}).Name()\n}\n" % (MODP, v("lib"), v("lib")),
        "lib/leaf/leaf.go": "package leaf\n\ntype Rec struct{ LeafField int }\n\nvar counter = %d\n\nfunc Count() int { return counter + len(\"leaf-literal-value-%d\") }\n" % (10 + v("leaf"), v("leaf")),
    }

def do_build(gc, gcache, srcdir, cfgname, out, verbose=False):
    fl, env, bf = ALPHA[cfgname]
    gg = Garble(binpath=g.bin, gocache=gc, garblecache=gcache, name="c06")
    args = (["-v"] if verbose else []) + ["-o", out] + bf + ["."]
    return gg.garble(fl, "build", args, srcdir, extra_env=env or None, tmpdir=os.path.join(os.path.dirname(gc), "tmp"))

log("preparing base caches for %d configurations" % len(names))
FATX = {"lib/lib.go": "package lib\n\nfunc Touch() int { return 1 }\n", "touch.go": "package main\n\nimport \"%s/lib\"\n\nvar _ = lib.Touch\n" % MODP}
bases = dict(zip(names, pmap(lambda n: ensure_base(g, ALPHA[n][0], ALPHA[n][1], ALPHA[n][2], modpath=MODP, extra_files=FATX), names, workers=3)))

refs = {}
def reference(cfgname, state_key):
    key = (cfgname, state_key)
    state = dict(state_key)
    d = os.path.join(g.root, "ref-%s-%s" % (cfgname, sha256(str(state_key))[:8]))
    gc, gcache = compose(os.path.join(d, "caches"), [bases[cfgname]])
    src = os.path.join(d, "src")
    write_module(src, sources(state), modpath=MODP)
    p = do_build(gc, gcache, src, cfgname, os.path.join(d, "out"))
    res = None
    if p.returncode == 0:
        res = (sha256_file(os.path.join(d, "out")), exec_bin(os.path.join(d, "out")).stdout)
    else:
        res = ("BUILD-FAILED", p.stderr)
    shutil.rmtree(os.path.join(d, "caches"), ignore_errors=True)
    return key, res

# histories
hist = []
if tier == "quick":
    # quick: every configuration against the default one in both orders (a missing cache-key input shows as soon as two
    # configurations that differ in that input follow each other), plus the pairs that differ in a *value* only
    for c in names:
        hist.append([("build", "default"), ("build", c)])
        if c != "default": hist.append([("build", c), ("build", "default")])
    for c1, c2 in (("seedLong1", "seedLong2"), ("seedLong2", "seedLong1"), ("literals", "literals-ldx1"), ("literals-ldx1", "literals"), ("tiny", "literals")):
        hist.append([("build", c1), ("build", c2)])
else:
    for c1 in names:
        for c2 in names:
            hist.append([("build", c1), ("build", c2)])
EDITS = [("main", 1), ("lib", 1), ("leaf", 1)] + ([("main", 2), ("lib", 2), ("leaf", 2)] if tier != "quick" else [])
for c in (names[:3] if tier == "quick" else names):
    for e in EDITS:
        hist.append([("build", c), ("edit",) + e, ("build", c)])
if tier != "quick":
    for c1, c2 in itertools.permutations(["default", "literals", "seedA", "tiny", "literals-ldx1"], 2):
        for e in EDITS[:3]:
            hist.append([("build", c1), ("edit",) + e, ("build", c2)])
            hist.append([("build", c1), ("build", c2), ("build", c1)])
def final_state(h):
    st = {}
    for op in h:
        if op[0] == "edit": st[op[1]] = op[2]
    return tuple(sorted(st.items()))
needed = sorted(set((h[-1][1], final_state(h)) for h in hist))
log("%d histories, %d cold references" % (len(hist), len(needed)))
for key, res in pmap(lambda k: reference(*k), needed, workers=8):
    refs[key] = res
    if res[0] == "BUILD-FAILED":
        log("reference build failed for", key, short(res[1], 800))

def run_history(hi):
    h = hist[hi]
    d = os.path.join(g.root, "h%d" % hi)
    cfgs = sorted(set(op[1] for op in h if op[0] == "build"))
    gc, gcache = compose(os.path.join(d, "caches"), [bases[c] for c in cfgs])
    src = os.path.join(d, "src")
    state = {}
    write_module(src, sources(state), modpath=MODP)
    last = None
    for op in h:
        if op[0] == "edit":
            state[op[1]] = op[2]
            for rel, c in sources(state).items(): write(os.path.join(src, rel), c)
        else:
            last = do_build(gc, gcache, src, op[1], os.path.join(d, "out"))
            if last.returncode != 0: break
    res = {"h": h, "rc": last.returncode, "stderr": last.stderr}
    if last.returncode == 0:
        res["sha"] = sha256_file(os.path.join(d, "out"))
        res["stdout"] = exec_bin(os.path.join(d, "out")).stdout
        # an unchanged rebuild must recompile nothing
        again = do_build(gc, gcache, src, h[-1][1], os.path.join(d, "out2"), verbose=True)
        res["rebuilt"] = [l for l in again.stderr.decode(errors="replace").split("\n") if re.fullmatch(r"[A-Za-z0-9_./-]+", l.strip() or " ")] if again.returncode == 0 else ["rebuild failed: " + short(again.stderr, 300)]
        res["sha2"] = sha256_file(os.path.join(d, "out2")) if again.returncode == 0 else None
    shutil.rmtree(d, ignore_errors=True)
    return res
def diffclass(c1, c2):
    a, b = ALPHA[c1], ALPHA[c2]
    parts = []
    f1, f2 = set(a[0]), set(b[0])
    for f in sorted(f1 ^ f2): parts.append(f.split("=")[0])
    if any(x.startswith("-seed") for x in f1) and any(x.startswith("-seed") for x in f2) and f1 != f2: parts = ["seed-value"]
    for k in sorted(set(a[1]) | set(b[1])):
        if a[1].get(k) != b[1].get(k): parts.append(k)
    if a[2] != b[2]:
        x = (a[2] + b[2])[0]
        parts.append("ldflags-X" if "ldflags" in x else "tags")
        if "-literals" in f1 & f2 and "ldflags" in x: parts = ["ldflags-X-under-literals"]
    return "+".join(parts) or "same"
evals = 0; outcomes = set()
for res in pmap(run_history, range(len(hist)), workers=8):
    h = res["h"]; evals += 1
    hs = " ; ".join("%s(%s)" % (op[0], ",".join(map(str, op[1:]))) for op in h)
    ref = refs[(h[-1][1], final_state(h))]
    builds = [op[1] for op in h if op[0] == "build"]
    cls = diffclass(builds[-2], builds[-1]) if len(builds) > 1 else "single"
    if any(op[0] == "edit" for op in h): cls += "+edit-" + [op[1] for op in h if op[0] == "edit"][0]
    replay = {"history.txt": hs + "\n", "replay.sh": "# module sources: see checks/c06.py sources(); run the builds of history.txt in order on one GOCACHE/GARBLE_CACHE pair,\n# then build the last configuration on fresh caches and compare the two binaries.\n"}
    if ref[0] == "BUILD-FAILED":
        R.violation("cold-build-fails:" + h[-1][1], "cold build of configuration %s fails: %s" % (h[-1][1], short(ref[1], 800)), replay); continue
    if res["rc"] != 0:
        R.violation("history-build-fails:" + cls, "history [%s]: last build fails though the cold build succeeds: %s" % (hs, short(res["stderr"], 800)), replay); continue
    outcomes.add(res["sha"])
    if res["stdout"] != ref[1]:
        R.violation("stale:" + cls, "history [%s]: the binary prints %r but a cold build of the same configuration and source prints %r" % (hs, res["stdout"][:300], ref[1][:300]), replay)
    elif res["sha"] != ref[0]:
        R.violation("differs-from-cold:" + cls, "history [%s]: binary differs from the cold build of the same configuration and source (same output)" % hs, replay)
    if res.get("rebuilt"):
        R.violation("rebuild-not-noop:" + h[-1][1], "history [%s]: rebuilding with nothing changed recompiled %s" % (hs, res["rebuilt"][:5]), replay)
    elif res.get("sha2") != res["sha"]:
        R.violation("rebuild-changes-binary:" + h[-1][1], "history [%s]: an unchanged rebuild produced a different binary" % hs, replay)

R.finish({
    "evaluations": evals,
    "distinct_nontrivial": len(outcomes),
    "rule": "histories over one shared (GOCACHE, GARBLE_CACHE) pair whose standard library is warm for every configuration used: every ordered pair build(c1);build(c2) over %d configurations, "
            "build(c);edit(p);build(c) for every package p, %s; oracle: the last binary is byte-identical (and prints the same) as a build of the same configuration and source whose user packages are cold, "
            "and an immediate unchanged rebuild (-v) lists no package and reproduces the binary; distinct_nontrivial = distinct final binaries" % (len(names), "plus cross-configuration edit histories and c1;c2;c1 triples" if tier != "quick" else "3 configurations"),
    "samples": [" ; ".join("%s(%s)" % (op[0], ",".join(map(str, op[1:]))) for op in h) for h in hist[:3] + hist[-2:]],
    "configurations": names, "histories": len(hist), "cold_references": len(needed),
}, assumptions=["standard-library cache entries are shared between history and reference (they are never edited)", "cmd/go's own cache keys are trusted for unobfuscated inputs"], exhaustive=True)
