#!/usr/bin/env python3
"""C20: command lines are split the way the go command splits them (engine E)."""
import sys, os
sys.path.insert(0, os.path.join(os.path.dirname(os.path.abspath(__file__)), "..", "lib"))
from vlib import *

tier = tier_arg()
R = Result("C20", tier, "exploration")
g = Garble(name="c20")
# `garble -debug` output is cached by cmd/go together with the compile results and replayed to later builds:
# keep it out of the shared caches by working on a private hard-linked clone
from caches import fast_clone
fast_clone(shared_gocache(), os.path.join(g.root, "gocache"))
fast_clone(shared_garblecache(), os.path.join(g.root, "garblecache"))
g.gocache, g.garblecache = os.path.join(g.root, "gocache"), os.path.join(g.root, "garblecache")
hb = build_hooked()

# ---- flag universe and boolean-ness, probed from the real go binary
probe_dir = g.newdir("probe")
write_module(probe_dir, {"main.go": "package main\nfunc main(){}\n"}, modpath="example.com/probe")
def help_flags(topic):
    out = g.go(["help", topic], probe_dir).stdout.decode()
    return sorted(set(re.findall(r"^\t(-[A-Za-z][A-Za-z0-9_-]*)", out, re.M)))
build_listing = help_flags("build")
listed = sorted(set(build_listing + help_flags("testflag") + help_flags("test") + ["-o"]) - {"-args"})
def probe(cmd, flag):
    p = g.go([cmd, flag], probe_dir, timeout=120)
    err = p.stderr.decode()
    if "flag provided but not defined" in err:
        return None
    return "flag needs an argument" not in err
univ = {}
for cmd in ("build", "test"):
    res = pmap(lambda f: probe(cmd, f), listed)
    univ[cmd] = {f: b for f, b in zip(listed, res) if b is not None}
log("universe: build %d flags (%d boolean), test %d flags (%d boolean)" % (
    len(univ["build"]), sum(univ["build"].values()), len(univ["test"]), sum(univ["test"].values())))
if len(univ["build"]) < 25 or len(univ["test"]) < 50 or not univ["build"].get("-race") or univ["build"].get("-tags"):
    log("FATAL: flag probe looks wrong", univ); sys.exit(2)

# build-affecting flags = the shared build flags of `go help build` minus the ones garble manages itself
MANAGED = {"-a", "-n", "-x", "-v", "-trimpath", "-toolexec", "-buildvcs", "-json"}
DONTCARE = {"-work"}
required = sorted(set(build_listing) - MANAGED - DONTCARE)
VALUES = ["x", "-x", "./p", "a.go", "k=v", ""]
REDUCED = ["-race", "-v", "-tags", "-ldflags", "-o", "-json"]

def harness(cmd, maxlen, redlen, shards):
    def one(s):
        u = {"name": cmd, "bool": univ[cmd], "required": required, "dontcare": sorted(DONTCARE), "values": VALUES,
             "maxlen": maxlen, "reduced": [f for f in REDUCED if f in univ[cmd]], "redlen": redlen, "shard": s, "shards": shards}
        return run_mode(hb, "c20", input=json.dumps(u).encode(), timeout=7200)
    return pmap(one, range(shards))

vectors = 0; nontrivial = 0; samples = []; outcomes = set(); viol_vectors = 0
for cmd, (ml, rl) in {"build": ((3, 4) if tier == "quick" else (4, 6)), "test": ((3, 4) if tier == "quick" else (3, 6))}.items():
    for out in harness(cmd, ml, rl, NCPU):
        vectors += out["vectors"]; nontrivial += out["vectors_with_flags_and_args"]
        samples += (out["samples"] or [])[:2]
        outcomes.add(out["distinct_split_points"])
        viol_vectors += out["violating_vectors"]
        for v in out["violations"] or []:
            sig = v["sig"]
            # --bool for any boolean flag is one defect class
            m = re.match(r"split:--(.+)$", sig)
            if m and univ[cmd].get("-" + m.group(1)):
                sig = "split:double-dash-boolean"
            R.violation(sig, v["what"], {"replay.txt": "GARBLE_VERIF_MODE=c20 (function seam)\n" + v["what"] + "\n"})
tool = run_mode(hb, "c20tool")
for v in tool["violations"] or []:
    R.violation("tool:" + v["sig"], v["what"])

# ---- CLI conformance: what garble really hands to `go list` and `go build|test|run`
stubdir = mkdir(g.root, "stubbin")
stublog = os.path.join(g.root, "stub.log")
write(os.path.join(stubdir, "go"), "#!/bin/sh\n"
      "case \"$1\" in build|test|run)\n  case \" $* \" in *\" -toolexec=\"*)\n"
      "    { printf '%s\\037' \"$@\"; printf '\\n'; } >> \"$STUBLOG.$GARBLE_STUB_ID\"\n"
      "    if [ \"$STUB_NOEXEC\" = 1 ]; then exit 0; fi;;\n  esac;;\nesac\n"
      "exec " + GOROOT_TC + "/bin/go \"$@\"\n")
os.chmod(os.path.join(stubdir, "go"), 0o755)
proj = g.newdir("proj")
write_module(proj, {
    "main.go": "package main\n\nimport (\n\t\"fmt\"\n\t\"os\"\n\t\"example.com/c20/p\"\n)\n\nfunc main() { fmt.Println(p.F(), len(os.Args)) }\n",
    "p/p.go": "package p\n\nfunc F() int { return 42 }\n",
    "p/p_test.go": "package p\n\nimport \"testing\"\n\nfunc TestF(t *testing.T) { if F() != 42 { t.Fatal() } }\n",
    "main_test.go": "package main\n\nimport \"testing\"\n\nfunc TestMainPkg(t *testing.T) {}\n",
}, modpath="example.com/c20")
BENIGN = {"-C": ".", "-p": "2", "-tags": "sometag", "-mod": "mod", "-ldflags": "-s", "-gcflags": "example.com/c20=-l", "-asmflags": "example.com/c20=-I.", "-o": None,
          "-covermode": "set", "-coverpkg": "./...", "-run": "TestF", "-count": "1", "-timeout": "60s", "-bench": "Nope", "-benchtime": "1x",
          "-cpu": "1", "-list": "Nope", "-parallel": "2", "-skip": "Nope", "-shuffle": "off", "-vet": "off", "-fuzztime": "1x",
          "-buildmode": "exe", "-compiler": "gc", "-installsuffix": None, "-pkgdir": None, "-exec": None, "-fuzz": None,
          "-overlay": None, "-modfile": None, "-pgo": "off", "-gccgoflags": "example.com/c20=-O", "-fuzzminimizetime": "1x",
          "-toolexec": None, "-outputdir": None, "-blockprofile": None, "-coverprofile": None, "-cpuprofile": None, "-memprofile": None,
          "-mutexprofile": None, "-trace": None, "-blockprofilerate": "1", "-memprofilerate": "1", "-mutexprofilefraction": "1"}
# flags that would rebuild the whole standard library per case (or need cgo) are left to the function seam
SKIP_BOOL = {"-race", "-msan", "-asan", "-linkshared", "-i", "-c", "-cover", "-a"}
cli_cases = []
for cmd in ("build", "test"):
    for f, isb in sorted(univ[cmd].items()):
        if f == "-C":
            continue  # must be first on the go command line; garble puts its own flags first (not a splitting question)
        if isb:
            if f in SKIP_BOOL: continue
            forms = [[f], ["-" + f], [f + "=true"]]
        else:
            v = BENIGN.get(f)
            if v is None: continue
            forms = [[f, v], ["-" + f, v], [f + "=" + v], ["-" + f + "=" + v]]
        if tier == "quick":
            forms = forms[:2] if cmd == "build" else forms[1:2]
        for fm in forms:
            out = ["-o", os.devnull] if cmd == "build" else []
            cli_cases.append((cmd, fm + out, ["./p"] if cmd == "test" else ["."]))
# per-command shapes the go command documents
shape_cases = [
    ("run", [], [".", "a", "b"], "run-program-args"),
    ("run", ["-tags", "x"], [".", "-v", "b"], "run-program-args"),
    ("test", [], ["./p", "-run", "TestF", "-v"], "test-flags-after-packages"),
    ("build", ["-o", os.devnull], [".", "./p"], "build-two-packages"),
    ("build", ["-o", "prog-tiny"], ["."], "flag-value-looks-like-garble-flag"),
    ("build", ["-o=prog-debug"], ["."], "flag-value-looks-like-garble-flag"),
    ("test", [], ["./p", "-tags", "sometag", "-run", "TestF"], "test-flags-after-packages"),
    ("test", ["-run", "TestF"], ["./p", "-args", "y", "z"], "test-args"),
    ("run", [], ["main.go", "a.go-like-arg", "b"], "run-program-args"),
    ("test", ["-run", "TestF"], ["./p", "."], "test-two-packages"),
]
def ref_units(cmd, flags):
    i, units = 0, []
    while i < len(flags):
        t = flags[i]; short = t[1:] if t.startswith("--") else t
        name = short.split("=")[0]
        if "=" in short or univ.get(cmd, univ["build"]).get(name): units.append((name, [short])); i += 1
        else: units.append((name, [short] + flags[i+1:i+2])); i += 2
    return units
def run_cli(idx, cmd, flags, args):
    env = {"PATH": stubdir + ":" + g.env()["PATH"], "STUBLOG": stublog, "GARBLE_STUB_ID": str(idx)}
    if idx < len(cli_cases):
        env["STUB_NOEXEC"] = "1"   # only the argv matters for these; the shape cases below run for real
    p = g.garble(["-debug"], cmd, flags + args, proj, extra_env=env, timeout=600)
    logf = "%s.%d" % (stublog, idx)
    calls = [l.split("\x1f")[:-1] for l in read(logf).split("\n") if l] if os.path.exists(logf) else []
    # the nested linker build also goes through `go build`; only the user-level command matters
    calls = [c for c in calls if c and c[0] == cmd and any(a.startswith("-toolexec=") for a in c)]
    lists = re.findall(r"original build info obtained in \S+ via: go (list .*)", p.stderr.decode(errors="replace"))
    return p, calls, lists
def judge(i_case):
    idx, (cmd, flags, args) = i_case
    p, calls, lists = run_cli(idx, cmd, flags, args)
    v = []
    if idx >= len(cli_cases) and p0_ok[idx] and p.returncode != 0:
        v.append(("cli-fails", "garble %s %s exits %d but go %s succeeds: %s" % (cmd, flags + args, p.returncode, cmd, short(p.stderr, 500))))
    if calls:
        argv = calls[0]
        if argv[-len(flags + args):] != flags + args:
            v.append(("cli-argv", "go %s was handed %s, expected it to end with the user's %s" % (cmd, argv, flags + args)))
    elif p.returncode == 0:
        v.append(("cli-no-go-call", "no `go %s` call observed" % cmd))
    if lists:
        want = []
        for name, toks in ref_units(cmd, flags):
            if name in required: want += toks
        got = lists[0].split(" ")
        # forwarded flags sit between garble's own flags and the packages
        fw = [t for t in got if t in want or any(t == w for w in want)]
        joined = " ".join(got)
        if want and " ".join(want) not in joined:
            v.append(("cli-list-forward", "go list did not receive %s: go %s" % (want, lists[0])))
        if not want:
            for name, toks in ref_units(cmd, flags):
                if name not in required and name not in DONTCARE and name not in MANAGED and toks[0] in got:
                    v.append(("cli-list-extra", "go list received non-build flag %s: go %s" % (toks, lists[0])))
    return v, (cmd, flags, args, p.returncode)
cases = [(c, f, a) for c, f, a in cli_cases] + [(c, f, a) for c, f, a, _ in shape_cases]
# reference: what does the real go command say for each vector
def go_ok(c):
    cmd, flags, args = c
    return g.go([cmd] + flags + args, proj, timeout=600).returncode == 0
p0_ok = [True] * len(cli_cases) + pmap(go_ok, cases[len(cli_cases):])
results = pmap(judge, list(enumerate(cases)), workers=6)
validated = 0
for (viol, info), case in zip(results, cases):
    validated += 1
    tag = None
    for c, f, a, t in shape_cases:
        if (c, f, a) == case: tag = t
    for sig, what in viol:
        fl = next((t for t in case[1] if t.startswith("-")), "")
        s = "%s:%s" % (sig, tag or fl.split("=")[0])
        m = re.match(r"(cli-\w+):--(.+)$", s)
        if m and univ.get(case[0], univ["build"]).get("-" + m.group(2)): s = m.group(1) + ":double-dash-boolean"
        R.violation(s, what, {"replay.sh": "cd <module with main.go and p/> && garble %s %s\n" % (case[0], " ".join(case[1] + case[2]))})

# garble's own flags after the command, unknown flags to reverse/map: must be rejected
rej = []
for gf in (["-tiny"], ["--tiny"], ["-literals"], ["-literals=true"], ["-seed=AAAAAAAAAAA"], ["-seed", "AAAAAAAAAAA"], ["-debugdir=dd"], ["-debugdir", "dd"], ["-debug"]):
    for pre in ([], ["-v"], ["-tags", "x"]):
        for cmd in ("build", "test") if tier == "quick" else ("build", "test", "run"):
            rej.append((cmd, pre + gf + (["-o", os.devnull] if cmd == "build" else []), ["."], "garble-flag-after-command"))
for uf in (["-nosuchflag"], ["--nosuchflag"], ["-nosuchflag=1"], ["-run", "X"], ["-bench=."]):
    for cmd in ("reverse", "map"):
        rej.append((cmd, uf, ["."], "unknown-flag-" + cmd))
def run_rej(c):
    cmd, flags, args, tag = c
    d = g.newdir("rej")
    p = g.garble([], cmd, flags + args, proj, timeout=600, input=b"")
    return p
for c, p in zip(rej, pmap(run_rej, rej, workers=8)):
    validated += 1
    if p.returncode == 0:
        R.violation("%s:%s" % (c[3], c[1][-1 if c[0] in ("reverse", "map") else 0].split("=")[0] if False else c[3]),
                    "garble %s %s was accepted (exit 0)" % (c[0], c[1] + c[2]))
shutil.rmtree(os.path.join(proj, "dd"), ignore_errors=True)
# sanity (accepted forms must keep working so that 'rejected' is not vacuous)
for cmd, fl in (("reverse", ["-tags", "x"]), ("map", ["-tags=x"])):
    p = g.garble([], cmd, fl + ["."], proj, input=b"nothing here\n")
    validated += 1
    if cmd == "map" and p.returncode != 0:
        R.violation("map-accepts-build-flag", "garble map -tags=x . fails: " + short(p.stderr))

R.finish({
    "evaluations": vectors + tool["lines"] + validated,
    "distinct_nontrivial": nontrivial,
    "rule": "every argument vector up to length %s over {each flag of `go help build|test|testflag` defined for the command (boolean-ness probed from "
            "the real go binary) in forms -f, --f, -f=v, --f=v} U values %s, plus a reduced alphabet to greater length; distinct_nontrivial = vectors with "
            "a non-empty flag part and a non-empty argument part; oracle = reference splitter + reference forward filter; CLI conformance through a stub go"
            % ("3 (reduced 4)" if tier == "quick" else "4/3 (reduced 6)", VALUES),
    "samples": samples[:8] + [str(r[1]) for r in results[:4]],
    "flags_build": len(univ["build"]), "flags_test": len(univ["test"]), "violating_vectors": viol_vectors,
    "tool_cmdlines": tool["lines"],
    "traces_validated_against_impl": validated,
    "cli_cases": len(cases), "reject_cases": len(rej),
}, assumptions=["the go command's own flag parsing (probed) is the reference", "`garble -debug` log line for the go list argv",
                "flags managed by garble itself (%s) are excluded from the forwarding requirement" % " ".join(sorted(MANAGED))],
   exhaustive=True)
