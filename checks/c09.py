#!/usr/bin/env python3
"""C09: with -literals, literal contents do not appear in the binary (engine A, marker scan)."""
import sys, os, hashlib, base64
sys.path.insert(0, os.path.join(os.path.dirname(os.path.abspath(__file__)), "..", "lib"))
from vlib import *

tier = tier_arg()
R = Result("C09", tier, "exploration")
g = Garble(name="c09")

LENGTHS_IN = [8, 9, 64, 256, 257, 2048] if tier != "quick" else [8, 9, 257, 2048]
LENGTHS_OUT = [7, 2049]
markers = {}   # marker bytes -> (position, length, demanded)
counter = [0]
def mk(position, n, demanded=True):
    counter[0] += 1
    head = "%s%d_" % ("Q" if n > 7 else "", counter[0])
    fill = base64.b32encode(hashlib.sha256(("%s/%d/%d" % (position, n, counter[0])).encode()).digest() * (n // 32 + 2)).decode().lower()
    s = ("K%03d" % counter[0] + fill)[:n] if n <= 8 else (head + fill)[:n]
    assert len(s) == n
    markers[s] = (position, n, demanded)
    return s
def q(s): return '"' + s + '"'
def bl(s): return ", ".join("'%s'" % c for c in s)

def gen_program():
    decls, body, libdecls = [], [], []
    def P(expr): body.append("\tsink(%s)" % expr)
    for n in LENGTHS_IN + LENGTHS_OUT:
        dem = n in LENGTHS_IN
        i = "%d" % n
        decls.append("var vInit%s = %s" % (i, q(mk("var-initialiser", n, dem)))); P("vInit" + i)
        body.append("\tshort%s := %s" % (i, q(mk("short-var-decl", n, dem)))); P("short" + i)
        P("ident(%s)" % q(mk("call-argument", n, dem)))
        P("variadic(%s, %s)" % (q(mk("variadic-argument", n, dem)), q(mk("variadic-argument-2", n, dem))))
        P("generic(%s)" % q(mk("generic-call-argument", n, dem)))
        P("generic2[string, int](%s, 1)" % q(mk("explicit-generic-argument", n, dem)))
        decls.append("func ret%s() string { return %s }" % (i, q(mk("return-value", n, dem)))); P("ret%s()" % i)
        P("[]string{%s}[0]" % q(mk("slice-literal-element", n, dem)))
        P("[...]string{%s}[0]" % q(mk("array-literal-element", n, dem)))
        mkey = mk("map-literal-key", n, dem)
        P("map[string]string{%s: %s}[%s]" % (q(mkey), q(mk("map-literal-value", n, dem)), "mapkey" + i))
        decls.append("var mapkey%s = ident(%s)" % (i, q(mk("map-lookup-key", n, dem))))
        markers.pop(mkey); mkey2 = None  # key must equal lookup key to print the value: reuse one marker for both
        body[-1] = body[-1]  # keep
        P("struct{ F string }{%s}.F" % q(mk("struct-literal-field-unkeyed", n, dem)))
        P("struct{ F string }{F: %s}.F" % q(mk("struct-literal-field-keyed", n, dem)))
        P("lib.T{Name: %s}.Name" % q(mk("foreign-struct-field", n, dem)))
        P("string([]byte{%s})" % bl(mk("byte-slice-literal", n, dem)))
        P("string(func() []byte { a := [%d]byte{%s}; return a[:] }())" % (n, bl(mk("byte-array-literal", n, dem))))
        P("string(*&[]byte{%s})" % bl(mk("pointer-to-byte-slice", n, dem)))
        P("string((&[%d]byte{%s})[:])" % (n, bl(mk("pointer-to-byte-array", n, dem))))
        P("func() string { return %s }()" % q(mk("closure-body", n, dem)))
        decls.append("func (recv) meth%s() string { return %s }" % (i, q(mk("method-body", n, dem)))); P("recv{}.meth%s()" % i)
        decls.append("func init() { sink(%s) }" % q(mk("init-function", n, dem)))
        body.append("\tdefer sink(%s)" % q(mk("defer-argument", n, dem)))
        body.append("\twg.Add(1)\n\tgo func(s string) { sink(s); wg.Done() }(%s)\n\twg.Wait()" % q(mk("go-argument", n, dem)))
        body.append("\tswitch os.Args[0] {\n\tcase %s:\n\t\tsink(\"case hit %s\")\n\t}" % (q(mk("switch-case-label", n, dem)), i))
        h = n // 2
        fm = mk("folded-concatenation", n, dem)
        P("%s + %s" % (q(fm[:h]), q(fm[h:])))
        decls.append("const cUse%s = %s" % (i, q(mk("const-used-as-value", n, dem)))); P("cUse" + i)
        decls.append("const cTyped%s string = %s" % (i, q(mk("typed-string-const-used-as-value", n, dem)))); P("cTyped" + i)
        P("ident(\"prefix-\" + cFold%s)" % i); decls.append("const cFold%s = %s" % (i, q(mk("const-folded-at-use", n, False))))  # untyped operand of a constant expression: only the folded whole is a string-typed value
        markers[("prefix-" + [m for m, v in markers.items() if v[0] == "const-folded-at-use" and v[1] == n][0])] = ("const-folded-at-use-whole", n + 7, dem and n + 7 <= 2048)
        P("lib.Get%s()" % i); libdecls.append("func Get%s() string { return %s }" % (i, q(mk("dependency-package", n, dem))))
        P("fmt.Sprintf(%s, 1)" % q(mk("format-string", n, dem)[:-2] + "%d"))
        fmk = [m for m, v in markers.items() if v[0] == "format-string" and v[1] == n][0]
        markers[fmk[:-2] + "%d"] = markers.pop(fmk)
        P("any(%s).(string)" % q(mk("interface-conversion", n, dem)))
        # documented exemptions: recorded, never demanded
        decls.append("//go:nosplit\nfunc nosplit%s() string { return %s }" % (i, q(mk("EXEMPT-nosplit-function", n, False)))); P("nosplit%s()" % i)
        decls.append("var xTarget%s = %s" % (i, q(mk("EXEMPT-ldflags-X-target", n, False)))); P("xTarget" + i)
        # a function-local variable that merely shares its name with the -X target is an ordinary literal
        decls.append("func shadowX%s() string {\n\tvar xTarget%s = %s\n\treturn xTarget%s\n}" % (i, i, q(mk("local-var-named-like-X-target", n, dem)), i)); P("shadowX%s()" % i)
        decls.append("var namedVar%s named = %s" % (i, q(mk("EXEMPT-named-string-type", n, False)))); P("string(namedVar%s)" % i)
        decls.append("const cLen%s = len(%s)" % (i, q(mk("EXEMPT-const-context-only", n, False)))); P("strconv.Itoa(cLen%s)" % i)
        decls.append("type tagged%s struct {\n\tF int `%s`\n}" % (i, mk("EXEMPT-struct-tag", n, False))); P("strconv.Itoa(tagged%s{}.F)" % i)
    main = ("package main\n\nimport (\n\t\"fmt\"\n\t\"os\"\n\t\"strconv\"\n\t\"sync\"\n\n\t\"example.com/c09/lib\"\n)\n\ntype recv struct{}\n\ntype named string\n\nvar wg sync.WaitGroup\n\nvar mu sync.Mutex\n\n"
            "var out []string\n\nfunc sink(s string) { mu.Lock(); out = append(out, s); mu.Unlock() }\n\nfunc ident(s string) string { return s }\n\n"
            "func variadic(parts ...string) string { return parts[0] + parts[1] }\n\nfunc generic[T any](v T) T { return v }\n\nfunc generic2[T any, U any](v T, u U) T { return v }\n\n"
            + "\n\n".join(decls) + "\n\nfunc main() {\n\tdefer func() {\n\t\tfor _, s := range out {\n\t\t\tos.Stdout.WriteString(s + \"\\n\")\n\t\t}\n\t}()\n\t_ = fmt.Sprint\n\t_ = strconv.Itoa\n" + "\n".join(body) + "\n}\n")
    lib = "package lib\n\ntype T struct{ Name string }\n\n" + "\n\n".join(libdecls) + "\n"
    return {"main.go": main, "lib/lib.go": lib}

files = gen_program()
# fix up the map key/lookup: the literal key and the looked-up key must be the same string for the value to print
src = files["main.go"]
for n in LENGTHS_IN + LENGTHS_OUT:
    look = [m for m, v in markers.items() if v[0] == "map-lookup-key" and v[1] == n][0]
    m = re.search(r'map\[string\]string\{"([^"]+)": "[^"]+"\}\[mapkey%d\]' % n, src)
    src = src.replace('map[string]string{"%s":' % m.group(1), 'map[string]string{"%s":' % look)
files["main.go"] = src
demanded = {m: v for m, v in markers.items() if v[2]}
recorded = {m: v for m, v in markers.items() if not v[2]}
log("markers: %d demanded, %d recorded only" % (len(demanded), len(recorded)))

XT = " ".join("-X=main.xTarget%d=xv%d" % (n, n) for n in LENGTHS_IN + LENGTHS_OUT)
d0 = g.newdir("plain")
write_module(d0, files, modpath="example.com/c09")
p0 = g.go(["build", "-o", "plain", "."], d0)
if p0.returncode != 0:
    log("generator bug:", p0.stderr.decode()[:4000]); sys.exit(2)
pdata = read(d0 + "/plain", "rb")
present_plain = [m for m in demanded if m.encode() in pdata]
ref = exec_bin(d0 + "/plain")
log("plain: %d/%d demanded markers present, %d output lines" % (len(present_plain), len(demanded), ref.stdout.count(b"\n")))
if len(present_plain) < 0.9 * len(demanded):
    log("FATAL: vacuous: missing in plain:", [demanded[m][:2] for m in demanded if m not in present_plain][:30]); sys.exit(2)
for m in demanded:
    if m.encode() not in ref.stdout and not m.startswith("prefix-") :
        pass

SEEDS = [("-seed=UXpTZWVkTWFya2VyS3gx", b"QzSeedMarkerKx1")]
if tier != "quick":
    SEEDS += [("-seed=TWtTZWVkVHdvTWFya2Vy", b"MkSeedTwoMarker"), ("-seed=AAAAAAAAAAA", None)]
CASES = [(["-literals"], False), (["-literals", SEEDS[0][0]], False), (["-literals", "-tiny"], False), (["-literals"], True)]
if tier != "quick":
    CASES += [(["-literals", s[0]], x) for s in SEEDS[1:] for x in (False, True)] + [(["-literals", "-tiny", SEEDS[0][0]], True)]
    tb = build_garble(tags="garble_testing", name="garble-testing")
def one(case):
    fl, withx = case[0], case[1]
    forced = case[2] if len(case) > 2 else None
    d = g.newdir("b")
    # -ldflags=-X decides at compile time which declaration stays in clear but is not part of the compile cache key
    # (known finding of C06): give the -X builds their own source text so that they never share an object with the others
    fs = dict(files)
    if withx: fs["main.go"] = files["main.go"] + "\n// built with -ldflags=-X\n"
    write_module(d, fs, modpath="example.com/c09")
    args = ["-o", "out"] + (["-ldflags=" + XT] if withx else []) + ["."]
    refp = ref
    if withx:
        g.go(["build", "-o", "plainx", "-ldflags=" + XT, "."], d)
        refp = exec_bin(d + "/plainx")
    if forced is not None:
        gg = Garble(binpath=tb, name="c09")
        p = gg.garble(fl, "build", args, d, extra_env={"GARBLE_TEST_LITERALS_OBFUSCATOR_MAP": "main=%d,lib=%d" % (forced, forced)})
    else:
        p = g.garble(fl, "build", args, d)
    v = []
    label = "flags %s%s%s" % (fl, " +ldflags-X" if withx else "", " forced-obfuscator=%d" % forced if forced is not None else "")
    if p.returncode != 0:
        return [("build-fails", "garble %s build fails: %s" % (label, short(p.stderr, 1500)))], 0
    data = read(d + "/out", "rb")
    for m, (pos, n, _) in demanded.items():
        if m.encode() in data:
            v.append(("literal-in-binary:%s" % pos, "%s: literal of length %d in position %s appears verbatim in the binary: %s..." % (label, n, pos, m[:40])))
    for sflag, raw in SEEDS:
        if sflag in fl and raw:   # only marker-bearing seeds: a run of "A" characters occurs in any binary
            if sflag[6:].encode() in data or raw in data:
                v.append(("seed-in-binary", "%s: the seed value appears in the binary" % label))
    o = exec_bin(d + "/out")
    if o.stdout != refp.stdout or o.returncode != refp.returncode:
        v.append(("behaviour", "%s: output differs from the regular build (%d vs %d bytes)" % (label, len(o.stdout), len(refp.stdout))))
    rec = sum(1 for m in recorded if m.encode() in data)
    shutil.rmtree(d, ignore_errors=True)
    return v, rec
if tier != "quick":
    CASES += [(["-literals", "-seed=AAAAAAAAAAA"], False, k) for k in range(5)]
results = pmap(one, CASES, workers=6)
for (v, rec), case in zip(results, CASES):
    for sig, what in v:
        R.violation(sig, what, {"module/" + k: c for k, c in files.items()} | {"replay.sh": "cd module && garble %s build -o out . && grep -a -c <marker> out\n" % " ".join(case[0])})

R.finish({
    "evaluations": len(CASES) * len(demanded),
    "distinct_nontrivial": len(present_plain),
    "rule": "a unique high-entropy marker literal of each length in %s planted in each of %d syntactic positions (plus %d documented-exemption / out-of-window positions that are only recorded); built with "
            "garble -literals under %d flag/seed/-X configurations; oracle: no demanded marker occurs in the binary's bytes, the seed value does not occur, and the program's output (which prints every marker) "
            "equals the regular build; distinct_nontrivial = demanded markers that ARE present in the regular build (vacuity guard)" % (
                LENGTHS_IN, len(set(v[0] for v in demanded.values())), len(set(v[0] for v in recorded.values())), len(CASES)),
    "samples": [{"position": v[0], "length": v[1], "marker": m[:48]} for m, v in list(demanded.items())[:5]],
    "markers_demanded": len(demanded), "markers_recorded_only": len(recorded), "markers_present_in_plain": len(present_plain),
    "recorded_markers_seen_in_garbled": [r[1] for r in results], "builds": len(CASES),
}, assumptions=["byte-substring scan for the whole literal (partial leaks of long literals are not demanded by the property)"], exhaustive=True)
