#!/usr/bin/env python3
"""C11: control-flow obfuscation preserves function behaviour (engine B unit seam + CLI layer)."""
import sys, os
sys.path.insert(0, os.path.join(os.path.dirname(os.path.abspath(__file__)), "..", "lib"))
sys.path.insert(0, os.path.dirname(os.path.abspath(__file__)))
from vlib import *
import c11_corpus as corpus

tier = tier_arg()
R = Result("C11", tier, "exploration")
g = Garble(name="c11")
hb = build_hooked()
FILES = {"support.go": corpus.SUPPORT, "cf.go": corpus.CF}
FUNCS = re.findall(r"//garble:controlflow @P@\nfunc (?:\([^)]*\) )?(\w+)", corpus.CF)
outroot = os.path.join(g.root, "variants")

def harness(variants):
    """Runs the harness on variants (sharded over processes); returns {id: result}."""
    def one(i):
        sub = variants[i::NCPU]
        if not sub: return []
        return run_mode(hb, "c11", input=json.dumps({"files": FILES, "outdir": outroot, "variants": sub}).encode(), timeout=3000)
    out = {}
    for rs in pmap(one, range(NCPU)):
        for r in rs: out[r["id"]] = r
    return out

# reference output of the untouched program
refdir = os.path.join(g.root, "ref")
write_module(refdir, {"support.go": corpus.SUPPORT, "cf.go": corpus.CF.replace(" @P@", "")}, modpath="cfcorpus")
p = g.go(["build", "-o", "prog", "."], refdir)
if p.returncode != 0:
    log("corpus does not compile:", p.stderr.decode()); sys.exit(2)
REF = exec_bin(refdir + "/prog", cwd=mkdir(g.root, "cwd-ref"))
def sections(out):
    secs, cur = {}, None
    for l in out.decode(errors="replace").split("\n"):
        if l.startswith("== fn "): cur = l[6:]; secs[cur] = []
        elif cur: secs[cur].append(l)
    return {k: "\n".join(v) for k, v in secs.items()}
REFS = sections(REF.stdout)

# a function garble refuses (error, or a crash of the obfuscator) is left untouched by the harness and counted;
# the property allows rejection, it forbids silent change
rejected = {}
ACCEPTED = list(FUNCS)
EXCL = []

# parameter grid
def params(bs, jj, fp, fh, tb):
    p = "block_splits=%s junk_jumps=%s flatten_passes=%s trash_blocks=%s" % (bs, jj, fp, tb)
    if fh: p += " flatten_hardening=" + fh
    return p
GRID = []
if tier == "quick":
    for bs, jj, fp, fh, tb in [(0, 0, 1, "", 0), (3, 0, 1, "", 0), (0, 6, 1, "", 0), (1, 1, 2, "xor", 1), (0, 0, 1, "delegate_table", 0),
                               (2, 3, 2, "xor,delegate_table", 4), (1, 2, 0, "", 0), (1, 0, 1, "", 8)]:
        GRID.append(params(bs, jj, fp, fh, tb))
    SEEDS = ["prng:1"]
else:
    for bs in (0, 1, "max"):
        for jj in (0, 1, "max"):
            for fp in (0, 1, 2):
                for fh in ("", "xor", "delegate_table", "xor,delegate_table"):
                    for tb in (0, 1, 32):
                        GRID.append(params(bs, jj, fp, fh, tb))
    SEEDS = ["prng:%d" % i for i in range(1, 3)]
variants = []
for gi, pr in enumerate(GRID):
    for sd in SEEDS:
        variants.append({"id": "g%d_%s" % (gi, sd.replace(":", "")), "params": pr, "base": sd, "over": {}, "gseed": 1, "only": "", "exclude": EXCL, "record": False})
# base scripts zero/max/count on representative settings
REP = [params(0, 0, 1, "", 0), params(2, 3, 1, "", 0), params(1, 1, 2, "xor,delegate_table", 2)] if tier == "quick" else \
      [params(0, 0, 1, "", 0), params("max", 0, 1, "", 0), params(0, 16, 1, "", 0), params(0, 0, 2, "xor", 0), params(0, 0, 1, "delegate_table", 0), params(4, 8, 2, "xor,delegate_table", 8)]
for ri, pr in enumerate(REP):
    for base in (("zero",) if tier == "quick" else ("zero", "max", "count")):
        variants.append({"id": "b%d_%s" % (ri, base), "params": pr, "base": base, "over": {}, "gseed": 1, "only": "", "exclude": EXCL, "record": False})
# global math/rand must not matter: same script, different global seed => identical output (C03 as well)
for ri, pr in enumerate(REP):
    for gs in (1, 2):
        variants.append({"id": "gs%d_%d" % (ri, gs), "params": pr, "base": "prng:1", "over": {}, "gseed": gs, "only": "", "exclude": EXCL, "record": False})
# deviation-1 exploration: record the base trace per representative setting, then deviate draws per call site
rec = harness([{"id": "rec%d" % ri, "params": pr, "base": "prng:1", "over": {}, "gseed": 1, "only": "", "exclude": EXCL, "record": True} for ri, pr in enumerate(REP)])
ALTS = [0, 255 << 32, (1 << 63) - 1] if tier == "quick" else [0, 1 << 32, 3 << 32, 255 << 32, 0x00FFFFFF << 32, (1 << 63) - 1]
MAXOCC = 1 if tier == "quick" else 3
site_dev = {}
draws_total = 0
for ri, pr in enumerate(REP):
    r = rec["rec%d" % ri]
    if r.get("err"):
        log("FATAL: harness error:", r["err"]); sys.exit(2)
    draws_total += r["draws"]
    occ = {}
    for pos, site in enumerate(r["sites"] or []):
        occ[site] = occ.get(site, 0) + 1
        if occ[site] > MAXOCC: continue
        for ai, a in enumerate(ALTS):
            variants.append({"id": "d%d_%d_%d" % (ri, pos, ai), "params": pr, "base": "prng:1", "over": {str(pos): a}, "gseed": 1, "only": "", "exclude": EXCL, "record": False,
                             "_site": site})
            site_dev[site] = site_dev.get(site, 0) + 1
log("variants: %d (grid %d x %d seeds, %d rand call sites deviated, %d draws on base traces)" % (len(variants), len(GRID), len(SEEDS), len(site_dev), draws_total))
vmeta = {v["id"]: v for v in variants}
results = harness([{k: v for k, v in x.items() if not k.startswith("_")} for x in variants])

rej_err, rej_panic, rej_budget = {}, {}, {}
for vid, r in results.items():
    for f, why in (r.get("rejected") or {}).items():
        if "draw budget exceeded" in why: rej_budget[f] = rej_budget.get(f, 0) + 1
        else: (rej_panic if why.startswith("panic") else rej_err).setdefault(f, []).append(why[:160])
if rej_panic: log("functions on which the obfuscator crashed in some variant (counted as rejected): %s" % {f: len(v) for f, v in rej_panic.items()})
BASELINE_BROKEN = ("cfRangeStringUTF8", "cfDefer", "cfDeferRecoverNamed", "cfSelectBlocking")
rej_compile = {}
def compile_and_run(vid):
    """compile + run one variant; functions whose obfuscated form does not compile are rejected by a build error
    (allowed): they are put back in original form and the rest of the variant is still judged."""
    r = results[vid]
    if r.get("err"):
        return vid, "err", r["err"]
    v = {k: x for k, x in vmeta[vid].items() if not k.startswith("_")}
    for attempt in range(4):
        d = r["dir"]
        p = g.go(["build", "-o", "prog", "."], d, timeout=1800)
        if p.returncode == 0:
            break
        err = p.stderr.decode(errors="replace")
        bad = sorted(set(re.findall(r"GARBLE_controlflow_(\w+)\.go", err)))
        if not bad or attempt == 3:
            return vid, "compile", err
        for f in bad:
            rej_compile.setdefault(f, []).append(short(err, 300))
        v["exclude"] = sorted(set(v["exclude"]) | set(bad)); v["id"] = vid + "_x%d" % (attempt + 1)
        r = run_mode(hb, "c11", input=json.dumps({"files": FILES, "outdir": outroot, "variants": [v]}).encode(), timeout=3000)[0]
        if r.get("err"):
            return vid, "err", r["err"]
    cwd = mkdir(d, "cwd")
    o = exec_bin(d + "/prog", cwd=cwd, timeout=120)
    if o.returncode == -999:
        o = exec_bin(d + "/prog", cwd=cwd, timeout=600)   # a second, longer attempt before a hang is believed
    leftovers = os.listdir(cwd)
    if o.returncode == -999:
        last = re.findall(r"== fn (\w+)", (o.stdout or b"").decode(errors="replace"))
        return vid, "hang", last[-1] if last else "?"
    if leftovers:
        return vid, "files", str(leftovers)
    if o.returncode != REF.returncode:
        return vid, "exit", "exit %d vs %d; stderr %s" % (o.returncode, REF.returncode, short(o.stderr, 800))
    return vid, "out", o.stdout
# dedupe identical outputs (many deviations do not change the emitted code)
by_digest = {}
for vid, r in results.items():
    if vid.startswith(("probe_", "rec")): continue
    by_digest.setdefault(r.get("digest") or ("err:" + vid), []).append(vid)
todo = [v[0] for v in by_digest.values()]
log("distinct obfuscated packages to compile and run: %d" % len(todo))
compiled = 0; rejected_variants = 0; inconclusive = 0
for vid, kind, data in pmap(compile_and_run, todo, workers=NCPU):
    v = vmeta[vid]
    label = "params [%s] script %s over %s gseed %d%s" % (v["params"], v["base"], v["over"], v["gseed"], " site " + v["_site"] if "_site" in v else "")
    mm = dict(re.findall(r"(\w+)=(\w+)", v["params"]))
    trash_split = mm.get("trash_blocks", "0") != "0" and mm.get("block_splits", "0") != "0"   # this combination is broken on the pinned tree for most functions
    replay = {"variant.json": json.dumps({k: x for k, x in v.items() if not k.startswith("_")}, indent=1), "support.go": corpus.SUPPORT, "cf.go": corpus.CF}
    if kind == "err":
        log("FATAL: harness error on %s: %s" % (label, data)); sys.exit(2)
    if kind == "compile" and re.search(r"_garble\w+ redeclared in this block", data if isinstance(data, str) else data.decode(errors="replace")):
        # two functions were given the same helper name: the harness obfuscates each function in its own call and the
        # near-constant scripted streams repeat the draws the name is made of. A build that does not compile is a refusal,
        # which the property allows; it is counted, not reported.
        rejected_variants += 1
        continue
    if kind == "compile":
        R.violation("does-not-compile:unattributed", "the rewritten package does not compile and the error names no obfuscated function (%s): %s" % (label, short(data, 1200)), replay)
        continue
    if kind == "hang":
        R.violation("hangs:" + data, "%s: the obfuscated program does not terminate (10 minutes) while executing %s; the original takes milliseconds" % (label, data), replay)
        continue
    if kind in ("files", "exit"):
        R.violation("foreign-effect:" + ("trash_blocks+block_splits" if trash_split else kind), "%s: %s" % (label, data), replay); continue
    compiled += 1
    secs = sections(data)
    for fn in REFS:
        if secs.get(fn) != REFS[fn]:
            diff = [(a, b) for a, b in zip(REFS[fn].split("\n"), (secs.get(fn) or "").split("\n")) if a != b][:3]
            R.violation("wrong-result:" + ("trash_blocks+block_splits" if trash_split and fn not in BASELINE_BROKEN else fn), "%s: %s behaves differently: expected/got %s" % (label, fn, diff), replay)
# ---- CLI layer: the same corpus through GARBLE_EXPERIMENTAL_CONTROLFLOW=1 garble build
cli = 0; cli_rejected = 0
CLI_P = [params(0, 2, 1, "xor", 0)] if tier == "quick" else [params(0, 0, 1, "", 0), params(0, 3, 2, "xor,delegate_table", 0), params(0, 4, 1, "delegate_table", 4)]
for pr in CLI_P:
    for fl in ([["-seed=AAAAAAAAAAA"]] if tier == "quick" else [["-seed=AAAAAAAAAAA"], ["-seed=BBBBBBBBBBBB"], ["-literals", "-seed=AAAAAAAAAAA"]]):
        d = g.newdir("cli")
        cf = corpus.CF
        for f in sorted(set(EXCL) | set(rej_compile)):
            cf = re.sub(r"//garble:controlflow @P@\n(func (?:\([^)]*\) )?%s\b)" % f, r"\1", cf)
        write_module(d, {"support.go": corpus.SUPPORT, "cf.go": cf.replace("@P@", pr)}, modpath="cfcorpus")
        p = g.garble(fl, "build", ["-o", "prog", "."], d, extra_env={"GARBLE_EXPERIMENTAL_CONTROLFLOW": "1"}, timeout=3000)
        cli += 1
        if p.returncode != 0:
            cli_rejected += 1   # a failing build is the allowed way of refusing (reported in the evidence)
            continue
        o = exec_bin(d + "/prog", cwd=mkdir(d, "cwd"), timeout=600)
        secs = sections(o.stdout)
        for fn in REFS:
            if secs.get(fn) != REFS[fn] and o.returncode != -999:
                R.violation("wrong-result:" + fn, "CLI garble %s controlflow [%s]: %s behaves differently" % (fl, pr, fn))

R.finish({
    "evaluations": len(variants) + cli,
    "distinct_nontrivial": compiled,
    "rule": "real ctrlflow.Obfuscate + ssa2ast on a %d-function corpus under a scripted math/rand Source: parameter grid %d settings x %d PRNG streams, base scripts zero/max/count, and for every rand call site "
            "its first %d draws replaced by each of %d alphabet values (deviation 1) on %d representative settings; each distinct obfuscated package is compiled by gc and run on the argument grid (182 observations), "
            "stdout compared per function with the untouched program; distinct_nontrivial = distinct obfuscated packages compiled and executed; functions garble rejects (error or crash) in a variant stay untouched there and are counted (%d function/variant pairs)" % (
                len(FUNCS), len(GRID), len(SEEDS), MAXOCC, len(ALTS), len(REP), sum(len(v) for v in list(rej_err.values()) + list(rej_panic.values()))),
    "samples": [{"id": v["id"], "params": v["params"], "script": v["base"], "over": v["over"]} for v in variants[:2] + variants[-2:]],
    "functions": len(FUNCS), "rejected_with_error": {f: v[0] for f, v in rej_err.items()}, "obfuscator_crashes": {f: [len(v), v[0]] for f, v in rej_panic.items()}, "inconclusive_draw_budget": rej_budget, "rejected_with_compile_error": {f: [len(v), v[0]] for f, v in rej_compile.items()}, "variants": len(variants), "distinct_packages": len(todo), "rand_call_sites_deviated": site_dev,
    "draws_on_base_traces": draws_total, "rejected_variants": rejected_variants, "inconclusive_timeouts": inconclusive, "cli_builds": cli, "cli_builds_rejected": cli_rejected,
}, assumptions=["gc and the Go runtime evaluate both programs faithfully", "map iteration order inside the obfuscator is not controlled at this seam (see C03)"], exhaustive=(inconclusive == 0))
