#!/usr/bin/env python3
"""C11: control-flow obfuscation preserves function behaviour (engine B unit seam + CLI layer)."""
import sys, os
sys.path.insert(0, os.path.join(os.path.dirname(os.path.abspath(__file__)), "..", "lib"))
sys.path.insert(0, os.path.dirname(os.path.abspath(__file__)))
from vlib import *
import c11_corpus as corpus

tier = tier_arg()
R = Result("C11", tier, "exploration")
g = Garble(name="c11")
hb = build_hooked()
FILES = {"support.go": corpus.SUPPORT, "cf.go": corpus.CF}
FUNCS = re.findall(r"//garble:controlflow @P@\nfunc (?:\([^)]*\) )?(\w+)", corpus.CF)
outroot = os.path.join(g.root, "variants")

def harness(variants):
    """Runs the harness on variants (sharded over processes); returns {id: result}."""
    def one(i):
        sub = variants[i::NCPU]
        if not sub: return []
        return run_mode(hb, "c11", input=json.dumps({"files": FILES, "outdir": outroot, "variants": sub}).encode(), timeout=3000)
    out = {}
    for rs in pmap(one, range(NCPU)):
        for r in rs: out[r["id"]] = r
    return out

# reference output of the untouched program
refdir = os.path.join(g.root, "ref")
write_module(refdir, {"support.go": corpus.SUPPORT, "cf.go": corpus.CF.replace(" @P@", "")}, modpath="cfcorpus")
p = g.go(["build", "-o", "prog", "."], refdir)
if p.returncode != 0:
    log("corpus does not compile:", p.stderr.decode()); sys.exit(2)
REF = exec_bin(refdir + "/prog", cwd=mkdir(g.root, "cwd-ref"))
def sections(out):
    secs, cur = {}, None
    for l in out.decode(errors="replace").split("\n"):
        if l.startswith("== fn "): cur = l[6:]; secs[cur] = []
        elif cur: secs[cur].append(l)
    return {k: "\n".join(v) for k, v in secs.items()}
REFS = sections(REF.stdout)

# pass 0: which functions does garble accept at all (a rejected function is allowed, a silently changed one is not)
probe = harness([{"id": "probe_" + f, "params": "", "base": "prng:1", "over": {}, "gseed": 1, "only": f, "exclude": [], "record": False} for f in FUNCS])
rejected = {}
for f in FUNCS:
    r = probe["probe_" + f]
    if r.get("err"):
        rejected[f] = r["err"]
        if "panic" in r["err"]:
            R.violation("obfuscator-panics:" + f, "ctrlflow.Obfuscate panics on %s: %s" % (f, r["err"]))
log("functions: %d, rejected by garble: %s" % (len(FUNCS), {k: v[:80] for k, v in rejected.items()}))
ACCEPTED = [f for f in FUNCS if f not in rejected]
EXCL = sorted(rejected)

# parameter grid
def params(bs, jj, fp, fh, tb):
    p = "block_splits=%s junk_jumps=%s flatten_passes=%s trash_blocks=%s" % (bs, jj, fp, tb)
    if fh: p += " flatten_hardening=" + fh
    return p
GRID = []
if tier == "quick":
    for bs, jj, fp, fh, tb in [(0, 0, 1, "", 0), ("max", 0, 1, "", 0), (0, "max", 1, "", 0), (1, 1, 2, "xor", 1), (0, 0, 1, "delegate_table", 0),
                               ("max", "max", 2, "xor,delegate_table", 32), (0, 0, 0, "", 0), (1, 0, 1, "", 32)]:
        GRID.append(params(bs, jj, fp, fh, tb))
    SEEDS = ["prng:1", "prng:2"]
else:
    for bs in (0, 1, "max"):
        for jj in (0, 1, "max"):
            for fp in (0, 1, 2):
                for fh in ("", "xor", "delegate_table", "xor,delegate_table"):
                    for tb in (0, 1, 32):
                        GRID.append(params(bs, jj, fp, fh, tb))
    SEEDS = ["prng:%d" % i for i in range(1, 4)]
variants = []
for gi, pr in enumerate(GRID):
    for sd in SEEDS:
        variants.append({"id": "g%d_%s" % (gi, sd.replace(":", "")), "params": pr, "base": sd, "over": {}, "gseed": 1, "only": "", "exclude": EXCL, "record": False})
# base scripts zero/max/count on representative settings
REP = [params(0, 0, 1, "", 0), params("max", 0, 1, "", 0), params(0, "max", 1, "", 0), params(0, 0, 2, "xor", 0), params(0, 0, 1, "delegate_table", 0), params("max", "max", 2, "xor,delegate_table", 8)]
for ri, pr in enumerate(REP):
    for base in ("zero", "max", "count"):
        variants.append({"id": "b%d_%s" % (ri, base), "params": pr, "base": base, "over": {}, "gseed": 1, "only": "", "exclude": EXCL, "record": False})
# global math/rand must not matter: same script, different global seed => identical output (C03 as well)
for ri, pr in enumerate(REP):
    for gs in (1, 2):
        variants.append({"id": "gs%d_%d" % (ri, gs), "params": pr, "base": "prng:1", "over": {}, "gseed": gs, "only": "", "exclude": EXCL, "record": False})
# deviation-1 exploration: record the base trace per representative setting, then deviate draws per call site
rec = harness([{"id": "rec%d" % ri, "params": pr, "base": "prng:1", "over": {}, "gseed": 1, "only": "", "exclude": EXCL, "record": True} for ri, pr in enumerate(REP)])
ALTS = [0, 1 << 32, 255 << 32, (1 << 63) - 1, 0x00FFFFFF << 32] if tier == "quick" else [0, 1 << 32, 2 << 32, 3 << 32, 7 << 32, 255 << 32, 256 << 32, ((1 << 31) - 2) << 32, 0x00FFFFFF << 32, (1 << 63) - 1, 0x0101010101010101]
MAXOCC = 2 if tier == "quick" else 6
site_dev = {}
draws_total = 0
for ri, pr in enumerate(REP):
    r = rec["rec%d" % ri]
    if r.get("err"):
        R.violation("obfuscate-error", "ctrlflow.Obfuscate fails on the accepted functions with params %r: %s" % (pr, r["err"]))
        continue
    draws_total += r["draws"]
    occ = {}
    for pos, site in enumerate(r["sites"] or []):
        occ[site] = occ.get(site, 0) + 1
        if occ[site] > MAXOCC: continue
        for ai, a in enumerate(ALTS):
            variants.append({"id": "d%d_%d_%d" % (ri, pos, ai), "params": pr, "base": "prng:1", "over": {str(pos): a}, "gseed": 1, "only": "", "exclude": EXCL, "record": False,
                             "_site": site})
            site_dev[site] = site_dev.get(site, 0) + 1
log("variants: %d (grid %d x %d seeds, %d rand call sites deviated, %d draws on base traces)" % (len(variants), len(GRID), len(SEEDS), len(site_dev), draws_total))
vmeta = {v["id"]: v for v in variants}
results = harness([{k: v for k, v in x.items() if not k.startswith("_")} for x in variants])

def compile_and_run(vid):
    r = results[vid]
    if r.get("err"):
        return vid, "err", r["err"]
    d = r["dir"]
    p = g.go(["build", "-o", "prog", "."], d, timeout=1800)
    if p.returncode != 0:
        return vid, "compile", p.stderr.decode(errors="replace")
    cwd = mkdir(d, "cwd")
    o = exec_bin(d + "/prog", cwd=cwd, timeout=600)
    leftovers = os.listdir(cwd)
    if o.returncode == -999:
        return vid, "timeout", ""
    if leftovers:
        return vid, "files", str(leftovers)
    if o.returncode != REF.returncode:
        return vid, "exit", "exit %d vs %d; stderr %s" % (o.returncode, REF.returncode, short(o.stderr, 800))
    return vid, "out", o.stdout
# dedupe identical outputs (many deviations do not change the emitted code)
by_digest = {}
for vid, r in results.items():
    if vid.startswith(("probe_", "rec")): continue
    by_digest.setdefault(r.get("digest") or ("err:" + vid), []).append(vid)
todo = [v[0] for v in by_digest.values()]
log("distinct obfuscated packages to compile and run: %d" % len(todo))
compiled = 0; rejected_variants = 0; inconclusive = 0
def name_fn_for_compile_error(v):
    """bisect a compile failure to functions by obfuscating them one at a time."""
    subs = harness([dict({k: x for k, x in v.items() if not k.startswith("_")}, id=v["id"] + "_only_" + f, only=f) for f in ACCEPTED])
    bad = []
    for f in ACCEPTED:
        r = subs[v["id"] + "_only_" + f]
        if r.get("err"): continue
        p = g.go(["build", "-o", "prog", "."], r["dir"], timeout=1800)
        if p.returncode != 0: bad.append((f, p.stderr.decode(errors="replace")))
    return bad
for vid, kind, data in pmap(compile_and_run, todo, workers=NCPU):
    v = vmeta[vid]
    label = "params [%s] script %s over %s gseed %d%s" % (v["params"], v["base"], v["over"], v["gseed"], " site " + v["_site"] if "_site" in v else "")
    replay = {"variant.json": json.dumps({k: x for k, x in v.items() if not k.startswith("_")}, indent=1), "support.go": corpus.SUPPORT, "cf.go": corpus.CF}
    if kind == "err":
        if "panic" in data:
            R.violation("obfuscator-panics", "%s: %s" % (label, data), replay)
        else:
            rejected_variants += 1   # a build error is the allowed way of refusing a function
        continue
    if kind == "compile":
        bad = name_fn_for_compile_error(v)
        for f, err in bad[:4] or [("?", data)]:
            R.violation("does-not-compile:" + f, "obfuscated %s does not compile (%s): %s" % (f, label, short(err, 1200)), replay)
        continue
    if kind == "timeout":
        inconclusive += 1; continue
    if kind in ("files", "exit"):
        R.violation("foreign-effect:" + kind, "%s: %s" % (label, data), replay); continue
    compiled += 1
    secs = sections(data)
    for fn in REFS:
        if secs.get(fn) != REFS[fn]:
            diff = [(a, b) for a, b in zip(REFS[fn].split("\n"), (secs.get(fn) or "").split("\n")) if a != b][:3]
            R.violation("wrong-result:" + fn, "%s: %s behaves differently: expected/got %s" % (label, fn, diff), replay)
# determinism: same script, different global seeds
for ri in range(len(REP)):
    a, b = results.get("gs%d_1" % ri), results.get("gs%d_2" % ri)
    if a and b and not a.get("err") and a["digest"] != b["digest"]:
        R.violation("depends-on-global-rand", "params [%s]: the obfuscated code differs when only the process-global math/rand seed differs" % REP[ri])

# ---- CLI layer: the same corpus through GARBLE_EXPERIMENTAL_CONTROLFLOW=1 garble build
cli = 0
CLI_P = [params(1, 1, 1, "xor", 1)] if tier == "quick" else [params(0, 0, 1, "", 0), params(1, 1, 2, "xor,delegate_table", 4), params("max", 4, 1, "delegate_table", 0)]
for pr in CLI_P:
    for fl in ([["-seed=AAAAAAAAAAA"]] if tier == "quick" else [["-seed=AAAAAAAAAAA"], ["-seed=BBBBBBBBBBBB"], ["-literals", "-seed=AAAAAAAAAAA"]]):
        d = g.newdir("cli")
        cf = corpus.CF
        for f in EXCL:
            cf = re.sub(r"//garble:controlflow @P@\n(func (?:\([^)]*\) )?%s\b)" % f, r"\1", cf)
        write_module(d, {"support.go": corpus.SUPPORT, "cf.go": cf.replace("@P@", pr)}, modpath="cfcorpus")
        p = g.garble(fl, "build", ["-o", "prog", "."], d, extra_env={"GARBLE_EXPERIMENTAL_CONTROLFLOW": "1"}, timeout=3000)
        cli += 1
        if p.returncode != 0:
            R.violation("cli-build-fails", "garble %s build with controlflow [%s] fails: %s" % (fl, pr, short(p.stderr, 1500)))
            continue
        o = exec_bin(d + "/prog", cwd=mkdir(d, "cwd"), timeout=600)
        secs = sections(o.stdout)
        for fn in REFS:
            if secs.get(fn) != REFS[fn] and o.returncode != -999:
                R.violation("wrong-result:" + fn, "CLI garble %s controlflow [%s]: %s behaves differently" % (fl, pr, fn))

R.finish({
    "evaluations": len(variants) + cli,
    "distinct_nontrivial": compiled,
    "rule": "real ctrlflow.Obfuscate + ssa2ast on a %d-function corpus under a scripted math/rand Source: parameter grid %d settings x %d PRNG streams, base scripts zero/max/count, and for every rand call site "
            "its first %d draws replaced by each of %d alphabet values (deviation 1) on %d representative settings; each distinct obfuscated package is compiled by gc and run on the argument grid (182 observations), "
            "stdout compared per function with the untouched program; distinct_nontrivial = distinct obfuscated packages compiled and executed; functions garble rejects with an error are allowed (%d)" % (
                len(FUNCS), len(GRID), len(SEEDS), MAXOCC, len(ALTS), len(REP), len(rejected)),
    "samples": [{"id": v["id"], "params": v["params"], "script": v["base"], "over": v["over"]} for v in variants[:2] + variants[-2:]],
    "functions": len(FUNCS), "rejected_functions": sorted(rejected), "variants": len(variants), "distinct_packages": len(todo), "rand_call_sites_deviated": site_dev,
    "draws_on_base_traces": draws_total, "rejected_variants": rejected_variants, "inconclusive_timeouts": inconclusive, "cli_builds": cli,
}, assumptions=["gc and the Go runtime evaluate both programs faithfully", "map iteration order inside the obfuscator is not controlled at this seam (see C03)"], exhaustive=(inconclusive == 0))
