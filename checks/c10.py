#!/usr/bin/env python3
"""C10: -tiny silences every crash but keeps crash semantics (engine A, crash catalogue)."""
import sys, os
sys.path.insert(0, os.path.join(os.path.dirname(os.path.abspath(__file__)), "..", "lib"))
from vlib import *

tier = tier_arg()
R = Result("C10", tier, "exploration")
g = Garble(name="c10")

PROG = r'''package main

import (
	"errors"
	"fmt"
	"os"
	"runtime"
	"runtime/debug"
	"strconv"
	"sync"

	"example.com/c10/dep"
)

type strer struct{}

func (strer) String() string { return "stringer-value" }

type custom struct {
	A int
	B string
}

type myErr struct{ code int }

func (e myErr) Error() string { return "my-error-" + strconv.Itoa(e.code) }

var zero = len(os.Args) - len(os.Args)

func crash(kind string) {
	switch kind {
	case "panic-string":
		panic("boom-string")
	case "panic-error":
		panic(errors.New("boom-error"))
	case "panic-custom-error":
		panic(myErr{7})
	case "panic-stringer":
		panic(strer{})
	case "panic-custom":
		panic(custom{1, "x"})
	case "panic-nil":
		var e error
		panic(e)
	case "panic-int":
		panic(42)
	case "panic-in-dep":
		dep.Boom(zero + 3)
	case "nil-deref":
		var p *custom
		_ = p.A
	case "index":
		s := []int{1}
		_ = s[zero+6]
	case "slice-bounds":
		s := []int{1}
		_ = s[:zero+6]
	case "div-zero":
		_ = 1 / zero
	case "type-assert":
		var x any = "s"
		_ = x.(int)
	case "type-assert-iface":
		var x any = 1
		_ = x.(fmt.Stringer)
	case "nil-map":
		var m map[string]int
		m["a"] = 1
	case "close-closed":
		c := make(chan int)
		close(c)
		close(c)
	case "close-nil":
		var c chan int
		close(c)
	case "send-closed":
		c := make(chan int, 1)
		close(c)
		c <- 1
	case "deadlock":
		select {}
	case "repanic-defer":
		defer func() { panic("second-panic") }()
		panic("first-panic")
	case "recover-then-repanic":
		defer func() {
			r := recover()
			panic(fmt.Sprint("re:", r))
		}()
		panic("orig-panic")
	case "goexit":
		runtime.Goexit()
	case "stack-overflow":
		var f func(int) int
		f = func(i int) int { return f(i+1) + 1 }
		f(0)
	case "unlock-unlocked":
		var mu sync.Mutex
		mu.Unlock()
	case "exit-0":
		os.Exit(0)
	case "exit-1":
		os.Exit(1)
	case "exit-3":
		os.Exit(3)
	case "exit-125":
		os.Exit(125)
	case "print-types":
		// the program's own print/println of every basic kind must survive -tiny
		var e error
		var m map[string]int
		println("OWN: ints", -7, uint8(200), int64(1)<<40, uintptr(9))
		println("OWN: floats", 1.5, float32(0.25), 1e100, -0.0)
		println("OWN: misc", true, false, "s", 'x', complex(1, -2), e == nil, m == nil, len(os.Args))
		print("OWN: joined", 1, "a", true, 2.5, "\n")
		return
	case "goexit-child-only":
		done := make(chan struct{})
		go func() {
			defer close(done)
			runtime.Goexit()
		}()
		<-done
		return
	case "panic-pointer":
		panic(&custom{2, "p"})
	case "panic-sprintf":
		panic(fmt.Sprintf("formatted %d %s", 3, "x"))
	case "return":
		return
	default:
		os.Stdout.WriteString("unknown kind\n")
		os.Exit(99)
	}
}

func describe(r any) string {
	switch v := r.(type) {
	case nil:
		return "nil"
	case *runtime.TypeAssertionError:
		return "runtime.Error:type assertion failed" // the message names types, which are obfuscated by design
	case runtime.Error:
		return "runtime.Error:" + v.Error()
	case error:
		return "error:" + v.Error()
	case fmt.Stringer:
		return "stringer:" + v.String()
	case custom:
		return "custom:" + strconv.Itoa(v.A) + v.B
	case *custom:
		return "custom-pointer:" + strconv.Itoa(v.A) + v.B
	case string:
		return "string:" + v
	case int:
		return "int:" + strconv.Itoa(v)
	}
	return "other"
}

func main() {
	kind, ctx := os.Args[1], os.Args[2]
	debug.SetMaxStack(1 << 20)
	os.Stdout.WriteString("stdout-line " + kind + "\n")
	println("OWN: println", 12, true)
	print("OWN: print\n")
	os.Stderr.WriteString("OWN: write\n")
	if kind == "caller" {
		_, file, line, ok := runtime.Caller(0)
		pc, _, _, _ := runtime.Caller(0)
		fn := runtime.FuncForPC(pc)
		ffile, fline := fn.FileLine(pc)
		os.Stdout.WriteString(fmt.Sprintf("caller file=%q line=%d ok=%v ffile=%q fline=%d dep=%s\n", file, line, ok, ffile, fline, dep.Where()))
		return
	}
	switch ctx {
	case "main":
		crash(kind)
	case "goroutine":
		done := make(chan struct{})
		go func() {
			crash(kind)
			close(done)
		}()
		<-done
	case "deferred":
		func() {
			defer crash(kind)
		}()
	case "after-recover":
		func() {
			defer func() {
				r := recover()
				os.Stdout.WriteString("recovered " + describe(r) + "\n")
				println("OWN: recovered")
			}()
			crash(kind)
		}()
		crash(kind)
	}
	os.Stdout.WriteString("end of main\n")
}
'''
DEP = r'''package dep

import (
	"runtime"
	"strconv"
)

type depErr struct{ n int }

func (d depErr) Error() string { return "dep-error-" + strconv.Itoa(d.n) }

func Boom(n int) { panic(depErr{n}) }

func Where() string {
	_, file, line, _ := runtime.Caller(0)
	return strconv.Quote(file) + ":" + strconv.Itoa(line)
}
'''
KINDS = ["panic-string", "panic-error", "panic-custom-error", "panic-stringer", "panic-custom", "panic-nil", "panic-int", "panic-in-dep", "nil-deref", "index",
         "slice-bounds", "div-zero", "type-assert", "type-assert-iface", "nil-map", "close-closed", "close-nil", "send-closed", "deadlock", "repanic-defer",
         "recover-then-repanic", "goexit", "stack-overflow", "unlock-unlocked", "exit-0", "exit-1", "exit-3", "exit-125", "return",
         "print-types", "goexit-child-only", "panic-pointer", "panic-sprintf"]
CTXS = ["main", "goroutine", "deferred", "after-recover"]
TBS = [None, "none", "all"] if tier == "quick" else [None, "none", "single", "all", "system", "crash"]
FLAGSETS = [["-tiny"]] if tier == "quick" else [["-tiny"], ["-tiny", "-literals"], ["-tiny", "-seed=AAAAAAAAAAA"]]

d = g.newdir("prog")
write_module(d, {"main.go": PROG, "dep/dep.go": DEP}, modpath="example.com/c10")
p0 = g.go(["build", "-trimpath", "-o", "plain", "."], d)
if p0.returncode != 0:
    log("generator bug", p0.stderr.decode()); sys.exit(2)
bins = {}
for fl in FLAGSETS:
    name = "t" + "".join(fl).replace("-", "").replace("=", "")
    p = g.garble(fl, "build", ["-o", name, "."], d)
    if p.returncode != 0:
        R.violation("build-fails", "garble %s build fails: %s" % (fl, short(p.stderr)), {"main.go": PROG})
    else:
        bins[" ".join(fl)] = os.path.join(d, name)

def own(stderr):
    return [l for l in stderr.decode(errors="replace").split("\n") if l.startswith("OWN:")]
cases = [(k, c, tb) for k in KINDS for c in CTXS for tb in TBS]
def runcase(case):
    k, c, tb = case
    env = {"GOTRACEBACK": tb} if tb else {}
    wd = mkdir(g.root, "cwd")
    a = exec_bin(d + "/plain", [k, c], env=env, timeout=600, cwd=wd)
    out = []
    for fl, b in bins.items():
        t = exec_bin(b, [k, c], env=env, timeout=600, cwd=wd)
        out.append((fl, t))
    return case, a, out
execs = 0; outcomes = set(); crashing = 0; inconclusive = 0
for case, a, outs in pmap(runcase, cases):
    k, c, tb = case
    if a.returncode == -999 or any(t.returncode == -999 for _, t in outs):
        inconclusive += 1   # internal deadline: no verdict (never an alarm)
        continue
    if a.returncode not in (0,) and not k.startswith("exit"):
        crashing += 1
    outcomes.add((k, c, a.returncode, a.stdout))
    for fl, t in outs:
        execs += 1
        label = "%s/%s GOTRACEBACK=%s flags=%s" % (k, c, tb, fl)
        if t.returncode != a.returncode:
            R.violation("exit-status:GOTRACEBACK=crash" if tb == "crash" and a.returncode == -6 and t.returncode == 2 else "exit-status:%s:%s" % (k, c), "%s: -tiny binary exits %d, regular build exits %d" % (label, t.returncode, a.returncode), {"main.go": PROG, "dep/dep.go": DEP})
        if t.stdout != a.stdout:
            R.violation("stdout:%s:%s" % (k, c), "%s: stdout %r vs regular %r" % (label, t.stdout[-600:], a.stdout[-600:]), {"main.go": PROG, "dep/dep.go": DEP})
        lines = [l for l in t.stderr.decode(errors="replace").split("\n") if l != ""]
        extra = [l for l in lines if not l.startswith("OWN:")]
        if extra:
            R.violation("stderr-not-silent:%s" % k, "%s: the -tiny binary wrote to stderr: %r" % (label, extra[:6]), {"main.go": PROG, "dep/dep.go": DEP})
        if own(t.stderr) != own(a.stderr):
            R.violation("own-stderr-lost:%s:%s" % (k, c), "%s: program-written stderr lines %r vs regular %r" % (label, own(t.stderr), own(a.stderr)))
# position queries
for fl, b in bins.items():
    t = exec_bin(b, ["caller", "main"])
    execs += 1
    m = re.search(rb'caller file="([^"]*)" line=(\d+) ok=(\w+) ffile="([^"]*)" fline=(\d+) dep="([^"]*)":(\d+)', t.stdout)
    if not m:
        R.violation("caller-output", "unexpected output %r %r" % (t.stdout, t.stderr))
    else:
        f1, l1, ok, f2, l2, f3, l3 = m.groups()
        if f1 not in (b"", b"??") or f2 not in (b"", b"??") or f3 not in (b"", b"??") or int(l1) > 1 or int(l2) > 1 or int(l3) > 1:
            R.violation("position-query", "flags %s: runtime.Caller/FuncForPC report %r" % (fl, t.stdout))
    if [l for l in t.stderr.decode().split("\n") if l and not l.startswith("OWN:")]:
        R.violation("stderr-not-silent:caller", "stderr %r" % t.stderr)

R.finish({
    "evaluations": execs,
    "distinct_nontrivial": len(outcomes),
    "rule": "one program with %d crash kinds x %d goroutine contexts selected by argv, run under GOTRACEBACK in %s, built with the regular toolchain and with garble %s; "
            "oracle: -tiny stderr holds only the lines the program wrote itself (prefix OWN:), stdout and exit status equal the regular build (recovered values are printed to stdout); "
            "distinct_nontrivial = distinct (kind, context, exit status, stdout) outcomes of the regular build; %d of the regular-build runs end in a crash" % (
                len(KINDS), len(CTXS), TBS, FLAGSETS, crashing),
    "samples": [{"kind": k, "ctx": c, "GOTRACEBACK": tb} for k, c, tb in cases[:3] + cases[-2:]],
    "inconclusive_timeouts": inconclusive, "kinds": len(KINDS), "contexts": len(CTXS), "gotraceback_values": len(TBS), "crashing_regular_runs": crashing,
}, assumptions=["the regular Go runtime defines the reference exit status and stdout", "timing-dependent crash kinds (data races, concurrent map writes) are excluded"], exhaustive=(inconclusive == 0))
