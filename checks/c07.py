#!/usr/bin/env python3
"""C07: missing or damaged cache entries are recomputed, never trusted (engine C: fault enumeration)."""
import sys, os, itertools
sys.path.insert(0, os.path.join(os.path.dirname(os.path.abspath(__file__)), "..", "lib"))
from vlib import *
from caches import *

tier = tier_arg()
R = Result("C07", tier, "fault_enumeration")
g = Garble(name="c07")
MODP = "example.com/c07"
def sources(state=None):
    v = lambda p: (state or {}).get(p, 0)
    return {
        "main.go": "package main\n\nimport (\n\t\"encoding/json\"\n\t\"fmt\"\n\t\"reflect\"\n\n\t\"%s/dump\"\n\t\"%s/mid\"\n)\n\ntype MainT struct {\n\tMainField int\n\tInner mid.MidT\n}\n\nfunc main() {\n\tv := MainT{%d, mid.New()}\n\tb, _ := json.Marshal(v)\n\tfmt.Println(string(b), reflect.TypeOf(v).Name(), reflect.TypeOf(v).Field(1).Name)\n\tfmt.Printf(\"%%+v\\n\", v)\n\tfmt.Println(mid.Sum(3), dump.JSON(Extra{\"via a helper that never imports reflect\", 5}))\n}\n\ntype Extra struct {\n\tExtraName string\n\tExtraNum  int\n}\n" % (MODP, MODP, 1 + v("main")),
        "dump/dump.go": "package dump\n\nimport \"encoding/json\"\n\nfunc JSON(v any) string {\n\tb, _ := json.Marshal(v)\n\treturn string(b)\n}\n",
        "mid/mid.go": "package mid\n\nimport (\n\t\"reflect\"\n\n\t\"%s/mid/leaf\"\n)\n\ntype MidT struct {\n\tMidField string\n\tLeaf leaf.LeafT\n}\n\nfunc New() MidT { return MidT{\"m%d\", leaf.New()} }\n\nfunc Sum(n int64) string { return reflect.TypeOf(MidT{}).String() + \":\" + reflect.ValueOf(leaf.AsmAdd(n, %d)).String() }\n" % (MODP, v("mid"), 5 + v("mid")),
        "mid/leaf/leaf.go": "package leaf\n\nimport \"reflect\"\n\ntype LeafT struct {\n\tLeafField int32\n\tSecond    int64\n}\n\nconst leafConst = 40\n\nfunc New() LeafT {\n\t_ = reflect.TypeOf(LeafT{})\n\treturn LeafT{7, AsmSecond(&LeafT{1, 9})}\n}\n\nfunc AsmAdd(x, y int64) int64\n\nfunc AsmSecond(l *LeafT) int64\n",
        "mid/leaf/leaf_amd64.s": "#include \"textflag.h\"\n#include \"go_asm.h\"\n\nTEXT ·AsmAdd(SB),NOSPLIT,$0-24\n\tMOVQ x+0(FP), AX\n\tADDQ y+8(FP), AX\n\tADDQ $const_leafConst, AX\n\tMOVQ AX, ret+16(FP)\n\tRET\n\nTEXT ·AsmSecond(SB),NOSPLIT,$0-16\n\tMOVQ l+0(FP), AX\n\tMOVQ LeafT_Second(AX), AX\n\tMOVQ AX, ret+8(FP)\n\tRET\n",
    }
base = ensure_base(g, [], None)
def listing(d):
    out = set()
    for root, _, files in os.walk(d):
        for f in files: out.add(os.path.relpath(os.path.join(root, f), d))
    return out
def build(caches, src, out, debugdir=None):
    gg = Garble(binpath=g.bin, gocache=os.path.join(caches, "gocache"), garblecache=os.path.join(caches, "garblecache"), name="c07")
    fl = ["-debugdir=" + debugdir] if debugdir else []
    return gg.garble(fl, "build", ["-o", out, "."], src, tmpdir=os.path.join(caches, "tmp"))
def fileset(d):
    return sorted(os.path.relpath(os.path.join(r, f), d) for r, _, fs in os.walk(d) for f in fs)

variants = [False] if tier == "quick" else [False, True]   # without / with -debugdir
total_cases = 0; classes_seen = set(); entry_count = 0; unconfirmed = []
for with_dd in variants:
    tag = "dd" if with_dd else "plain"
    S0 = os.path.join(g.root, "S0-" + tag)
    compose(S0, [base])
    before = listing(S0)
    src0 = os.path.join(g.root, "src0-" + tag)
    write_module(src0, sources(), modpath=MODP)
    dd0 = os.path.join(g.root, "dd0-" + tag) if with_dd else None
    p = build(S0, src0, os.path.join(g.root, "out0-" + tag), dd0)
    if p.returncode != 0:
        R.violation("warm-build-fails", "initial build fails: " + short(p.stderr)); break
    shutil.rmtree(os.path.join(S0, "tmp"), ignore_errors=True)
    new = sorted(listing(S0) - before)
    # cold references per source state
    states = {"none": {}, "main": {"main": 1}, "mid": {"mid": 1}}
    refs = {}
    for sname, st in states.items():
        rc = os.path.join(g.root, "refc-%s-%s" % (tag, sname)); compose(rc, [base])
        rs = os.path.join(g.root, "refs-%s-%s" % (tag, sname)); write_module(rs, sources(st), modpath=MODP)
        rdd = os.path.join(g.root, "refdd-%s-%s" % (tag, sname)) if with_dd else None
        p = build(rc, rs, os.path.join(rs, "out"), rdd)
        if p.returncode != 0:
            log("reference build failed", p.stderr.decode()); sys.exit(2)
        refs[sname] = (sha256_file(os.path.join(rs, "out")), exec_bin(os.path.join(rs, "out")).stdout, fileset(rdd) if with_dd else None)
        shutil.rmtree(rc, ignore_errors=True)
    def classify(rel):
        if rel.startswith("garblecache/tool/"): return "tool/" + os.path.basename(rel)
        part = "garblecache" if rel.startswith("garblecache/build/") else "gocache"
        kind = "index" if rel.endswith("-a") else ("data" if rel.endswith("-d") else "other")
        return "%s-%s" % (part, kind)
    entries = [e for e in new if classify(e).split("-")[-1] in ("index", "data")]
    tool = ["garblecache/tool/link", "garblecache/tool/link.version", "garblecache/tool/link.lock"]
    entry_count += len(entries) + len(tool)
    log("[%s] entries added by the build: %d (%s) + %d tool files" % (tag, len(entries), {c: sum(1 for e in entries if classify(e) == c) for c in set(map(classify, entries))}, len(tool)))
    cases = []
    FAULTS = ["delete", "empty", "truncate"]
    single = entries
    if with_dd:
        # every damaged entry makes a -debugdir build start over with -a (minutes each): a class-covering selection, 4 entries per class
        single = [e for c in sorted(set(map(classify, entries))) for e in [x for x in entries if classify(x) == c][:4]]
    for e in single + tool:
        for f in FAULTS:
            cases.append(([(e, f)], "single"))
    gidx = [e for e in entries if classify(e) == "garblecache-index"]
    if with_dd: gidx = gidx[:5]
    for a, b in itertools.combinations(gidx, 2):
        cases.append(([(a, "delete"), (b, "delete")], "pair"))
        if tier != "quick": cases.append(([(a, "truncate"), (b, "empty")], "pair"))
    if tier != "quick":
        k = gidx[:6]
        for r in range(3, len(k) + 1):
            for sub in itertools.combinations(k, r):
                cases.append(([(e, "delete") for e in sub], "subset"))
    for mask in range(1, 8):
        trees = [t for i, t in enumerate(["garblecache/build", "garblecache/tool", "gocache-new"]) if mask >> i & 1]
        cases.append(([(t, "rmtree") for t in trees], "trees"))
    FOLLOW = ["none", "main", "mid"] if tier != "quick" else ["none", "main", "mid"]
    jobs = [(ci, fo) for ci in range(len(cases)) for fo in FOLLOW]
    if tier == "quick":
        # quick: every case with a plain rebuild; edits only after single faults on garble's own cache and tool entries
        jobs = [(ci, fo) for ci, fo in jobs if fo == "none" or (cases[ci][1] in ("single", "trees") and (fo == "mid" or any(classify(e).startswith(("garblecache", "tool")) for e, _ in cases[ci][0] if "/" in e)))]
    def damage(root, faults):
        for e, f in faults:
            if f == "rmtree":
                if e == "gocache-new":
                    for n in new:
                        if n.startswith("gocache/"):
                            try: os.remove(os.path.join(root, n))
                            except FileNotFoundError: pass
                else:
                    shutil.rmtree(os.path.join(root, e), ignore_errors=True)
                continue
            p = os.path.join(root, e)
            if not os.path.exists(p): continue
            data = read(p, "rb")
            os.remove(p)                      # breaks a hard link to the base first
            if f == "empty": write(p, b"", "wb")
            elif f == "truncate": write(p, data[:len(data) // 2], "wb")
            if f != "delete" and e.endswith("/link"): os.chmod(p, 0o755)
    def run_case(job):
        ci, fo = job
        faults, kind = cases[ci]
        d = os.path.join(g.root, "c-%s-%d-%s" % (tag, ci, fo))
        link_clone(os.path.join(S0, "gocache"), os.path.join(d, "gocache"))
        link_clone(os.path.join(S0, "garblecache"), os.path.join(d, "garblecache"))
        damage(d, faults)
        src = os.path.join(d, "src")
        write_module(src, sources(states[fo]), modpath=MODP)
        dd = os.path.join(d, "dd") if with_dd else None
        p = build(d, src, os.path.join(d, "out"), dd)
        res = {"rc": p.returncode, "stderr": p.stderr}
        if p.returncode == 0:
            res["sha"] = sha256_file(os.path.join(d, "out")); res["stdout"] = exec_bin(os.path.join(d, "out")).stdout
            if with_dd: res["dd"] = fileset(dd)
        shutil.rmtree(d, ignore_errors=True)
        return job, res
    first = pmap(run_case, jobs, workers=8)
    # a failing case is repeated: only a failure that shows again is reported (a build is a concurrent program whose
    # schedule is not controlled here; one-off failures are counted as unconfirmed in the evidence)
    def is_bad(res, fo):
        return res["rc"] != 0 or res["stdout"] != refs[fo][1] or res["sha"] != refs[fo][0] or (with_dd and res.get("dd") != refs[fo][2])
    confirmed = []
    for (ci, fo), res in first:
        if is_bad(res, fo):
            again = [run_case((ci, fo))[1] for _ in range(3)]
            if any(is_bad(r, fo) for r in again):
                confirmed.append(((ci, fo), next(r for r in again if is_bad(r, fo))))
            else:
                unconfirmed.append("%s then %s: %s" % (cases[ci][0], fo, short(res.get("stderr", b""), 300) if res["rc"] else "output differs"))
                confirmed.append(((ci, fo), again[0]))
        else:
            confirmed.append(((ci, fo), res))
    for (ci, fo), res in confirmed:
        faults, kind = cases[ci]
        total_cases += 1
        cls = "+".join(sorted(set("%s:%s" % (classify(e) if "/" in e and f != "rmtree" else e, f) for e, f in faults)))
        classes_seen.add(cls + "/" + fo)
        label = "%s faults %s then rebuild%s%s" % (kind, faults, "" if fo == "none" else " after editing " + fo, " (-debugdir)" if with_dd else "")
        ref = refs[fo]
        replay = {"case.txt": label + "\n"}
        if res["rc"] != 0:
            R.violation("rebuild-fails:" + cls, "%s: exit %d: %s" % (label, res["rc"], short(res["stderr"], 600)), replay); continue
        if res["stdout"] != ref[1]:
            R.violation("wrong-behaviour:" + cls, "%s: prints %r, cold build prints %r" % (label, res["stdout"][:300], ref[1][:300]), replay)
        elif res["sha"] != ref[0]:
            R.violation("binary-differs:" + cls, "%s: binary differs from the cold build" % label, replay)
        if with_dd and res.get("dd") != ref[2]:
            missing = sorted(set(ref[2]) - set(res["dd"]))[:5]
            R.violation("debugdir-incomplete:" + cls, "%s: -debugdir tree incomplete, missing %s" % (label, missing), replay)
    shutil.rmtree(S0, ignore_errors=True)

R.finish({
    "evaluations": total_cases,
    "distinct_nontrivial": len(classes_seen),
    "rule": "after a warm build of a 3-level module (main -> mid -> leaf, reflection at every level, assembly with go_asm.h names in leaf%s): every cache file the build added (GOCACHE index/data files of the "
            "user packages, GARBLE_CACHE/build index/data files) and tool/link, link.version, link.lock x {delete, empty, truncate to half}; all pairs of GARBLE_CACHE index files; all 2^3-1 whole-tree deletions; "
            "each followed by a rebuild of the unchanged source and of the source after editing main / mid; oracle: exit 0, binary and stdout (reflection names, JSON) equal the cold reference; "
            "distinct_nontrivial = distinct (entry class, fault, follow-up) combinations" % ("; also with -debugdir" if len(variants) > 1 else ""),
    "samples": [{"faults": cases[i][0], "kind": cases[i][1]} for i in (0, 1, len(cases) // 2, len(cases) - 1)],
    "entries": entry_count, "cases": total_cases, "debugdir_variant": "4 entries per class x 3 faults + pairs + subsets + trees" if len(variants) > 1 else "not run in this tier", "unconfirmed_one_off_failures": unconfirmed,
}, assumptions=["faults are applied between builds (not concurrently)", "the standard library's cache entries are exercised only through whole-tree deletion of GARBLE_CACHE"], exhaustive=True)
