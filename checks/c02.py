#!/usr/bin/env python3
"""C02: the binary carries no original names, paths, positions or build metadata (engine A, marker scan)."""
import sys, os
sys.path.insert(0, os.path.join(os.path.dirname(os.path.abspath(__file__)), "..", "lib"))
from vlib import *

tier = tier_arg()
R = Result("C02", tier, "exploration")
g = Garble(name="c02")

class Markers:
    def __init__(self):
        self.m = {}
        self.n = 0
    def new(self, kind, exempt=False, exported=False, lower=False):
        self.n += 1
        base = "%s%02dKx" % (re.sub(r"[^a-z]", "", kind.lower()), self.n)
        name = ("Qz" if exported else "qz") + base
        if lower:
            name = name.lower()
        self.m[name] = (kind, exempt)
        return name

def gen_pkg(M, pkgname, where, imports_lib=None, is_main=False):
    """Declarations of every kind with marker names; returns (go source, call expression list, asm, header)."""
    k = lambda kind, **kw: M.new(kind + "@" + where, **kw)
    T, t = k("type-exported", exported=True), k("type-unexported")
    fE, fU, emb = k("field-exported", exported=True), k("field-unexported"), k("type-embedded")
    embF = k("field-of-embedded", exported=True)
    G, gf, tp = k("generic-type", exported=True), k("field-of-generic", exported=True), k("type-param", exported=True)
    I, im, iM = k("interface-type"), k("interface-method-unexported"), k("interface-method-exported", exported=True, exempt=True)
    mU, mE = k("method-unexported"), k("method-exported", exported=True, exempt=True)
    mP = k("method-pointer-unexported")
    vE, vU, c = k("var-exported", exported=True), k("var-unexported"), k("const", exported=True)
    F, f = k("func-exported", exported=True), k("func-unexported")
    par, res, loc, lab, cpar = k("param"), k("result"), k("local"), k("label"), k("closure-param")
    aF, aU = k("field-anonymous-struct", exported=True), k("field-anonymous-struct-unexported")
    tagv = k("struct-tag-value", exempt=True)
    gfn, gtp = k("generic-func"), k("generic-func-type-param", exported=True)
    asmF, asmL, asmC = k("asm-func", exported=True), k("asm-func-unexported"), k("asm-const-from-go")
    nested = k("local-type")
    recv = k("receiver-name")
    src = """
type %(T)s struct {
	%(fE)s int `%(tagv)s:"x"`
	%(fU)s string
	%(emb)s
}

type %(emb)s struct{ %(embF)s int }

type %(t)s struct{ %(fU)s int }

type %(G)s[%(tp)s any] struct{ %(gf)s %(tp)s }

type %(I)s interface {
	%(im)s() int
	%(iM)s() int
}

func (%(recv)s %(T)s) %(mU)s() int { return %(recv)s.%(fE)s + len(%(recv)s.%(fU)s) }

func (%(recv)s %(T)s) %(mE)s() int { return %(recv)s.%(embF)s }

func (%(recv)s *%(T)s) %(mP)s() { %(recv)s.%(fE)s++ }

func (%(recv)s %(T)s) %(im)s() int { return 1 }

func (%(recv)s %(T)s) %(iM)s() int { return 2 }

var %(vE)s = 3

var %(vU)s = %(t)s{4}

const %(c)s = 5

const %(asmC)s = 7

var anon%(n)s = struct {
	%(aF)s int
	%(aU)s string
}{6, "s"}

func %(gfn)s[%(gtp)s any](v %(gtp)s) %(G)s[%(gtp)s] { return %(G)s[%(gtp)s]{v} }

func %(asmF)s(x int64) int64

func %(asmL)s(x int64) int64

func %(f)s(%(par)s int) (%(res)s int) {
	type %(nested)s struct{ %(fU)s int }
	%(loc)s := %(nested)s{%(par)s}
	closure := func(%(cpar)s int) int { return %(cpar)s + %(loc)s.%(fU)s }
%(lab)s:
	for i := 0; i < 3; i++ {
		if i == 1 {
			break %(lab)s
		}
		%(res)s += closure(i)
	}
	var boxed any = %(loc)s
	if _, ok := boxed.(%(nested)s); ok {
		%(res)s++
	}
	return %(res)s
}

func %(F)s(sink func(int)) {
	v := %(T)s{%(fE)s: 1, %(fU)s: "u", %(emb)s: %(emb)s{2}}
	v.%(mP)s()
	var i %(I)s = v
	sink(v.%(mU)s() + v.%(mE)s() + i.%(im)s() + i.%(iM)s())
	sink(%(vE)s + %(vU)s.%(fU)s + %(c)s + anon%(n)s.%(aF)s + len(anon%(n)s.%(aU)s))
	sink(%(f)s(2) + %(gfn)s(3).%(gf)s + int(%(asmF)s(1)+%(asmL)s(2)))
	var boxed any = v
	switch x := boxed.(type) {
	case %(t)s:
		sink(x.%(fU)s)
	case %(T)s:
		sink(x.%(fE)s)
	case %(G)s[int]:
		sink(x.%(gf)s)
	}
	boxed = %(vU)s
	if x, ok := boxed.(%(t)s); ok {
		sink(x.%(fU)s)
	}
	boxed = %(gfn)s("s")
	if _, ok := boxed.(%(G)s[string]); ok {
		sink(9)
	}
}
""" % dict(locals(), n=where)
    lined, linefn = M.new("line-directive-file@" + where, lower=True) + ".y", M.new("func-under-line-directive@" + where)
    extra = ("package %s\n\n// a doc comment mentioning %s\n//line %s:40\nfunc %s(n int) int {\n\tx := n * 3\n\tx += 2\n\tif x < 2 {\n\t\treturn 1\n\t}\n\treturn %s(n-1)*3 + x\n}\n" % (pkgname, linefn, lined, linefn, linefn))
    src = src.replace("\tsink(%s + %s.%s" % (vE, vU, fU), "\tsink(%s(len(anon%s.%s) + 2))\n\tsink(%s + %s.%s" % (linefn, where, aU, vE, vU, fU))
    hdr = M.new("asm-header-file@" + where, lower=True) + ".h"
    hmac = M.new("asm-header-macro@" + where, exported=True)
    asm = ('#include "textflag.h"\n#include "go_asm.h"\n#include "%s"\n\n'
           "TEXT ·%s(SB),NOSPLIT,$0-16\n\tMOVQ x+0(FP), AX\n\tADDQ $const_%s, AX\n\tADDQ $%s, AX\n\tMOVQ AX, ret+8(FP)\n\tRET\n\n"
           "TEXT ·%s(SB),NOSPLIT,$0-16\n\tMOVQ x+0(FP), AX\n\tADDQ AX, AX\n\tMOVQ AX, ret+8(FP)\n\tRET\n" % (hdr, asmF, asmC, hmac, asmL))
    header = "#define %s 11\n" % hmac
    return src, F, asm, hdr, header, extra

def gen_program():
    M = Markers()
    mod1, mod2 = M.new("module-path-element", lower=True), M.new("module-path-element", lower=True)
    modpath = "example.com/%s/%s" % (mod1, mod2)
    d1, d2, d3 = M.new("directory", lower=True), M.new("directory", lower=True), M.new("directory-with.dot", lower=True)
    p1, p2 = M.new("package-name", lower=True), M.new("package-name", lower=True)
    files = {}
    srcm, Fm, asmm, hm, hdrm, exm = gen_pkg(M, "main", "main")
    src1, F1, asm1, h1, hdr1, ex1 = gen_pkg(M, p1, "dep")
    src2, F2, asm2, h2, hdr2, ex2 = gen_pkg(M, p2, "deepdep")
    xm, x1, x2 = M.new("go-file-second", lower=True), M.new("go-file-second", lower=True), M.new("go-file-second", lower=True)
    fmain, f1 = M.new("go-file", lower=True), M.new("go-file", lower=True)
    am, a1, a2 = M.new("asm-file", lower=True), M.new("asm-file", lower=True), M.new("asm-file", lower=True)
    ip1 = "%s/%s/%s" % (modpath, d1, d2)
    ip2 = "%s/%s/%s.x/%s" % (modpath, d1, d3, p2)
    files["%s.go" % fmain] = ("package main\n\nimport (\n\t\"os\"\n\t\"strconv\"\n\n\tl1 \"%s\"\n\t\"%s\"\n)\n\nvar total int\n\nfunc sink(n int) { total += n }\n\n"
                              "func main() {\n\t%s(sink)\n\tl1.%s(sink)\n\t%s.%s(sink)\n\tos.Stdout.WriteString(strconv.Itoa(total) + \"\\n\")\n\tprintln(len(os.Args))\n}\n" % (ip1, ip2, Fm, F1, p2, F2)) + srcm
    files["zz%s.go" % xm] = exm
    files["%s/%s/zz%s.go" % (d1, d2, x1)] = ex1
    files["%s/%s.x/%s/zz%s.go" % (d1, d3, p2, x2)] = ex2
    files["%s_amd64.s" % am] = asmm
    files[hm] = hdrm
    files["%s/%s/%s.go" % (d1, d2, f1)] = "package %s\n" % p1 + src1
    files["%s/%s/%s_amd64.s" % (d1, d2, a1)] = asm1
    files["%s/%s/%s" % (d1, d2, h1)] = hdr1
    files["%s/%s.x/%s/%s.go" % (d1, d3, p2, p2)] = "package %s\n" % p2 + src2     # file named like its package
    M.m[p2 + ".go"] = ("go-file-named-like-package", False)
    files["%s/%s.x/%s/%s_amd64.s" % (d1, d3, p2, a2)] = asm2
    files["%s/%s.x/%s/%s" % (d1, d3, p2, h2)] = hdr2
    files["go.mod"] = "module %s\n\ngo 1.26\n" % modpath
    return M, files, modpath

M, files, modpath = gen_program()
must = {m: k for m, (k, ex) in M.m.items() if not ex}
exempt = {m: k for m, (k, ex) in M.m.items() if ex}
log("markers: %d must-not-appear, %d exempt" % (len(must), len(exempt)))

SEEDV = "-seed=UXpTZWVkTWFya2VyS3gx"   # base64 of "QzSeedMarkerKx1"
FLAGSETS = [[], ["-tiny"], [SEEDV], ["-literals"]]
srcmark, tmpmark = "qzsrcdir91Kx", "qztmpdir92Kx"
LOCS = [("short", False), ("marked", True)]
TMPS = ["default", "inpwd", "marked"]
grid = []
if tier == "quick":
    for fl in FLAGSETS:
        grid.append((fl, ("marked", True), "marked"))
    grid.append(([], ("short", False), "inpwd"))
    grid.append((["-tiny"], ("short", False), "default"))
else:
    grid = [(fl, loc, tmp) for fl in FLAGSETS + [["-literals", "-tiny", SEEDV]] for loc in LOCS for tmp in TMPS]

def scan(data, names):
    return sorted(n for n in names if n.encode() in data)

def elf_sections(path):
    out = run(["readelf", "-S", "-W", path]).stdout.decode(errors="replace")
    return re.findall(r"\]\s+(\.\S+)\s+(\S+)\s+[0-9a-f]+\s+[0-9a-f]+\s+([0-9a-f]+)", out)

# plain reference (vacuity guard): names must be findable there
refd = os.path.join(g.root, "ref", srcmark, "m")
write_module(refd, files)
p = g.go(["build", "-gcflags=example.com/...=-N -l", "-ldflags=-compressdwarf=false", "-o", "plain", "."], refd)
if p.returncode != 0:
    log("generator bug:", p.stderr.decode()); sys.exit(2)
plain = read(refd + "/plain", "rb")
found_plain = scan(plain, must)
plain_out = exec_bin(refd + "/plain")
vac = len(found_plain) / len(must)
log("plain build: %d/%d must-not-appear markers present (%.0f%%), output %r" % (len(found_plain), len(must), vac * 100, plain_out.stdout))
if vac < 0.8:
    log("FATAL: marker scan is vacuous; missing in plain:", sorted(set(must) - set(found_plain))); sys.exit(2)

def one(case):
    fl, (locname, locmarked), tmp = case
    idx = grid.index(case)
    base = os.path.join(g.root, "w%d" % idx)
    d = os.path.join(base, srcmark if locmarked else "s", "m")
    write_module(d, files)
    tmpdir = {"default": os.path.join(base, "t"), "inpwd": os.path.join(d, "tmp"), "marked": os.path.join(base, tmpmark)}[tmp]
    p = g.garble(fl, "build", ["-o", os.path.join(base, "out"), "."], d, tmpdir=tmpdir)
    v = []
    if p.returncode != 0:
        return [("build-fails", "garble %s build fails: %s" % (fl, short(p.stderr, 1500)))], case, 0
    data = read(os.path.join(base, "out"), "rb")
    leaks = scan(data, must)
    for l in leaks:
        v.append(("leak:" + must[l].split("@")[0], "marker %s (%s) found in the binary built with flags %s, source dir %s, TMPDIR %s" % (l, must[l], fl, locname, tmp)))
    for pathmark, what in ((srcmark, "source-dir"), (tmpmark, "tmpdir"), ("garble-shared", "garble-shared-dir"), (os.path.basename(g.root), "scratch-root")):
        if pathmark.encode() in data:
            v.append(("leak:path:" + what, "path element %s found in binary (flags %s loc %s tmp %s)" % (pathmark, fl, locname, tmp)))
    if tmp == "inpwd" and b"/tmp/garble-shared" in data:
        v.append(("leak:path:tmp-in-pwd", "temp dir path in binary"))
    if b"QzSeedMarkerKx1" in data or SEEDV[6:].encode() in data:
        v.append(("leak:seed", "seed value found in binary"))
    # metadata
    e = g.env()
    vm = run(["go", "version", "-m", os.path.join(base, "out")], env=e)
    txt = vm.stdout.decode() + vm.stderr.decode()
    if re.search(r"\b(mod|dep|path|build)\t", txt) or "go1." in txt:
        v.append(("metadata:go-version-m", "go version -m reports: " + short(txt, 500)))
    bid = run(["go", "tool", "buildid", os.path.join(base, "out")], env=e).stdout.decode().strip()
    if bid:
        v.append(("metadata:buildid", "build id %r" % bid))
    secs = elf_sections(os.path.join(base, "out"))
    names = [s[0] for s in secs]
    for s in names:
        if s.startswith((".debug_", ".zdebug_")) or s in (".symtab", ".strtab", ".gosymtab_") :
            v.append(("metadata:section" + s, "ELF section %s present (flags %s)" % (s, fl)))
    for vs in (b"go1.26", b"example.com/" + modpath.split("/")[1].encode()):
        if vs in data:
            v.append(("metadata:string:" + vs.decode(), "%r found in binary (flags %s)" % (vs, fl)))
    o = exec_bin(os.path.join(base, "out"))
    if o.stdout != plain_out.stdout or o.returncode != plain_out.returncode:
        v.append(("behaviour", "output %r differs from plain %r" % (o.stdout, plain_out.stdout)))
    ex_found = len(scan(data, exempt))
    shutil.rmtree(base, ignore_errors=True)
    return v, case, ex_found
results = pmap(one, grid, workers=6)
for v, case, exf in results:
    for sig, what in v:
        R.violation(sig, what, {"module/" + k: c for k, c in files.items()} | {"replay.sh": "cd module && garble %s build -o out . && grep -a -c <marker> out\n" % " ".join(case[0])})

# runtime.Version() of the garbled program itself
d = g.newdir("ver")
write_module(d, {"main.go": "package main\n\nimport \"runtime\"\n\nfunc main() { println(runtime.Version()) }\n"})
p = g.garble([], "build", ["-o", "out", "."], d)
rv = exec_bin(d + "/out").stderr.decode().strip() if p.returncode == 0 else "build failed"
if rv != "unknown":
    R.violation("metadata:runtime.Version", "runtime.Version() of the garbled program prints %r" % rv)

R.finish({
    "evaluations": len(grid) + 2,
    "distinct_nontrivial": len(found_plain),
    "rule": "one generated 3-package module (Go, assembly, header files) in which every identifier, file, directory, module-path element and package name is a unique "
            "marker token, one per syntactic position kind (%d kinds x 3 packages); built under the grid flags x source location x TMPDIR; every marker that is not a "
            "documented exception must be absent from the binary's bytes; distinct_nontrivial = must-not-appear markers that ARE present in the plain reference build "
            "(vacuity guard %.0f%%)" % (len(set(k.split('@')[0] for k in must.values())), vac * 100),
    "samples": [{"marker": m, "kind": k} for m, k in list(must.items())[:6]] + [{"grid_case": [c[0], c[1][0], c[2]]} for _, c, _ in results[:3]],
    "markers_must_not_appear": len(must), "markers_exempt": len(exempt), "markers_found_in_plain_build": len(found_plain),
    "grid_cases": len(grid), "exempt_markers_seen_in_garbled": max(r[2] for r in results) if results else 0,
}, assumptions=["byte-substring scan of the ELF file (names hidden by compression or encoding would be missed; garbled binaries carry no compressed sections)",
                "readelf, go version -m and go tool buildid as metadata readers"],
   exhaustive=True)
