// namemap pairs the original sources of a module with the garbled sources written by `garble -debugdir`
// and reports, for every package-level object, struct field and method, the name it received in the
// build; optionally it checks a `garble map` JSON against that (C13). Built inside the garble module
// (overlay) so that golang.org/x/tools/go/types/objectpath is available. Never committed.
package main

import (
	"encoding/json"
	"fmt"
	"go/ast"
	"go/importer"
	"go/parser"
	"go/token"
	"go/types"
	"os"
	"path/filepath"
	"sort"
	"strings"

	"golang.org/x/tools/go/types/objectpath"
)

type pkgReport struct {
	ImportPath  string            `json:"import_path"`
	GarbledDir  string            `json:"garbled_dir"`  // directory below <debugdir>/garbled (the obfuscated import path)
	GarbledName string            `json:"garbled_name"` // package clause of the garbled files
	Names       map[string]string `json:"names"`        // "func F" / "type T" / "var v" / "const c" / "field T.f" / "method T.m" / "imethod I.m" -> garbled name
	Files       map[string]string `json:"files"`
	Problems    []string          `json:"problems"`
	MapChecked  int               `json:"map_objects_checked"`
	MapMissing  []string          `json:"map_missing"`
	MapWrong    []string          `json:"map_wrong"`
	MapPathOK   bool              `json:"map_path_ok"`
	MapListed   map[string]string `json:"map_listed"` // original qualified description -> obfuscated name as listed by garble map
}

func shape(f *ast.File) string {
	var b strings.Builder
	for _, d := range f.Decls {
		switch d := d.(type) {
		case *ast.GenDecl:
			if d.Tok == token.IMPORT {
				continue
			}
			fmt.Fprintf(&b, "%s%d[", d.Tok, len(d.Specs))
			for _, s := range d.Specs {
				switch s := s.(type) {
				case *ast.TypeSpec:
					switch t := s.Type.(type) {
					case *ast.StructType:
						fmt.Fprintf(&b, "S%d", t.Fields.NumFields())
					case *ast.InterfaceType:
						fmt.Fprintf(&b, "I%d", t.Methods.NumFields())
					default:
						b.WriteString("T")
					}
				case *ast.ValueSpec:
					fmt.Fprintf(&b, "V%d", len(s.Names))
				}
			}
			b.WriteString("]")
		case *ast.FuncDecl:
			n := 0
			if d.Type.Params != nil {
				n = d.Type.Params.NumFields()
			}
			if d.Recv != nil {
				fmt.Fprintf(&b, "M%d;", n)
			} else {
				fmt.Fprintf(&b, "F%d;", n)
			}
		}
	}
	return b.String()
}

func nonImportDecls(f *ast.File) []ast.Decl {
	var out []ast.Decl
	for _, d := range f.Decls {
		if g, ok := d.(*ast.GenDecl); ok && g.Tok == token.IMPORT {
			continue
		}
		out = append(out, d)
	}
	return out
}

func recvName(fd *ast.FuncDecl) string {
	if fd.Recv == nil || len(fd.Recv.List) == 0 {
		return ""
	}
	t := fd.Recv.List[0].Type
	for {
		switch x := t.(type) {
		case *ast.StarExpr:
			t = x.X
		case *ast.IndexExpr:
			t = x.X
		case *ast.IndexListExpr:
			t = x.X
		case *ast.ParenExpr:
			t = x.X
		case *ast.Ident:
			return x.Name
		default:
			return "?"
		}
	}
}

func fieldNames(f *ast.Field) []*ast.Ident {
	if len(f.Names) > 0 {
		return f.Names
	}
	// embedded: the name is the type's base identifier
	t := f.Type
	for {
		switch x := t.(type) {
		case *ast.StarExpr:
			t = x.X
		case *ast.IndexExpr:
			t = x.X
		case *ast.IndexListExpr:
			t = x.X
		case *ast.SelectorExpr:
			return []*ast.Ident{x.Sel}
		case *ast.Ident:
			return []*ast.Ident{x}
		default:
			return nil
		}
	}
}

// pair walks the declaration skeletons of an original and a garbled file in parallel.
func pair(orig, garb *ast.File, names map[string]string, posName map[token.Pos]string, problems *[]string) {
	od, gd := nonImportDecls(orig), nonImportDecls(garb)
	if len(gd) < len(od) {
		*problems = append(*problems, fmt.Sprintf("garbled file has %d declarations, original %d", len(gd), len(od)))
		return
	}
	set := func(key string, o, g *ast.Ident) {
		if o == nil || g == nil {
			return
		}
		names[key] = g.Name
		posName[o.Pos()] = g.Name
	}
	var pairType func(prefix string, o, g ast.Expr)
	pairType = func(prefix string, o, g ast.Expr) {
		switch ot := o.(type) {
		case *ast.StructType:
			gt, ok := g.(*ast.StructType)
			if !ok || len(gt.Fields.List) != len(ot.Fields.List) {
				*problems = append(*problems, "struct shape mismatch at "+prefix)
				return
			}
			for i, of := range ot.Fields.List {
				gf := gt.Fields.List[i]
				on, gn := fieldNames(of), fieldNames(gf)
				for k := range on {
					if k < len(gn) {
						set("field "+prefix+"."+on[k].Name, on[k], gn[k])
					}
				}
				// nested anonymous struct types
				pairType(prefix+"."+firstName(on), of.Type, gf.Type)
			}
		case *ast.InterfaceType:
			gt, ok := g.(*ast.InterfaceType)
			if !ok || len(gt.Methods.List) != len(ot.Methods.List) {
				return
			}
			for i, om := range ot.Methods.List {
				gm := gt.Methods.List[i]
				if len(om.Names) == 1 && len(gm.Names) == 1 {
					set("imethod "+prefix+"."+om.Names[0].Name, om.Names[0], gm.Names[0])
				}
			}
		case *ast.StarExpr:
			if gt, ok := g.(*ast.StarExpr); ok {
				pairType(prefix, ot.X, gt.X)
			}
		case *ast.ArrayType:
			if gt, ok := g.(*ast.ArrayType); ok {
				pairType(prefix, ot.Elt, gt.Elt)
			}
		case *ast.MapType:
			if gt, ok := g.(*ast.MapType); ok {
				pairType(prefix, ot.Value, gt.Value)
			}
		}
	}
	for i, d := range od {
		switch o := d.(type) {
		case *ast.FuncDecl:
			g, ok := gd[i].(*ast.FuncDecl)
			if !ok {
				*problems = append(*problems, "declaration kind mismatch")
				return
			}
			if r := recvName(o); r != "" {
				set("method "+r+"."+o.Name.Name, o.Name, g.Name)
			} else {
				set("func "+o.Name.Name, o.Name, g.Name)
			}
		case *ast.GenDecl:
			g, ok := gd[i].(*ast.GenDecl)
			if !ok || len(g.Specs) != len(o.Specs) {
				*problems = append(*problems, "declaration mismatch in "+o.Tok.String())
				return
			}
			for k, s := range o.Specs {
				switch os := s.(type) {
				case *ast.TypeSpec:
					gs := g.Specs[k].(*ast.TypeSpec)
					set("type "+os.Name.Name, os.Name, gs.Name)
					pairType(os.Name.Name, os.Type, gs.Type)
				case *ast.ValueSpec:
					gs := g.Specs[k].(*ast.ValueSpec)
					kind := "var "
					if o.Tok == token.CONST {
						kind = "const "
					}
					for n := range os.Names {
						if n < len(gs.Names) {
							set(kind+os.Names[n].Name, os.Names[n], gs.Names[n])
						}
					}
					if os.Type != nil && gs.Type != nil && len(os.Names) > 0 {
						pairType(os.Names[0].Name, os.Type, gs.Type)
					}
				}
			}
		}
	}
}

func firstName(ids []*ast.Ident) string {
	if len(ids) == 0 {
		return "_"
	}
	return ids[0].Name
}

func parseDir(fset *token.FileSet, dir string) map[string]*ast.File {
	out := map[string]*ast.File{}
	ents, _ := os.ReadDir(dir)
	for _, e := range ents {
		if !strings.HasSuffix(e.Name(), ".go") || strings.HasSuffix(e.Name(), "_test.go") {
			continue
		}
		f, err := parser.ParseFile(fset, filepath.Join(dir, e.Name()), nil, parser.SkipObjectResolution)
		if err == nil {
			out[e.Name()] = f
		}
	}
	return out
}

func main() {
	if len(os.Args) < 4 {
		fmt.Fprintln(os.Stderr, "usage: namemap <module dir> <module path> <debugdir> [map.json]")
		os.Exit(2)
	}
	modDir, modPath, debugDir := os.Args[1], os.Args[2], os.Args[3]
	var gmap map[string]struct {
		Path    string            `json:"path"`
		Objects map[string]string `json:"objects"`
	}
	if len(os.Args) > 4 {
		data, err := os.ReadFile(os.Args[4])
		if err == nil {
			json.Unmarshal(data, &gmap)
		}
	}
	fset := token.NewFileSet()
	var reports []*pkgReport
	importsSeen := map[string]string{} // original import path -> obfuscated path found in an importer's garbled import declaration
	importNames := map[string]string{} // original import path -> package name
	filepath.Walk(filepath.Join(debugDir, "source"), func(p string, info os.FileInfo, err error) error {
		if err == nil && info.IsDir() {
			for _, f := range parseDir(fset, p) {
				rel, _ := filepath.Rel(filepath.Join(debugDir, "source"), p)
				importNames[filepath.ToSlash(rel)] = f.Name.Name
			}
		}
		return nil
	})
	os.Chdir(modDir)
	imp := importer.ForCompiler(fset, "source", nil)
	filepath.Walk(modDir, func(p string, info os.FileInfo, err error) error {
		if err != nil || !info.IsDir() || strings.Contains(p, "/.") || strings.HasPrefix(filepath.Base(p), "_") {
			return nil
		}
		if rel, _ := filepath.Rel(modDir, p); strings.HasPrefix(rel, "debug") || strings.HasPrefix(rel, "out") {
			return filepath.SkipDir
		}
		if len(parseDir(fset, p)) == 0 {
			return nil
		}
		rel, _ := filepath.Rel(modDir, p)
		ip := modPath
		if rel != "." {
			ip = modPath + "/" + filepath.ToSlash(rel)
		}
		// the files that were really compiled (build constraints applied) are the ones garble copied to <debugdir>/source
		ofiles := parseDir(fset, filepath.Join(debugDir, "source", filepath.FromSlash(ip)))
		if len(ofiles) == 0 {
			return nil
		}

		rep := &pkgReport{ImportPath: ip, Names: map[string]string{}, Files: map[string]string{}, MapListed: map[string]string{}}
		reports = append(reports, rep)
		// <debugdir>/garbled mirrors <debugdir>/source: same directories (original import paths), same file names
		gfiles := parseDir(fset, filepath.Join(debugDir, "garbled", filepath.FromSlash(ip)))
		if len(gfiles) == 0 {
			rep.Problems = append(rep.Problems, "no garbled package matches (package not obfuscated or shape changed)")
			return nil
		}
		posName := map[token.Pos]string{}
		for on, of := range ofiles {
			gf := gfiles[on]
			if gf == nil {
				rep.Problems = append(rep.Problems, "garbled tree lacks "+on)
				continue
			}
			os_, gs := shape(of), shape(gf)
			if gs != os_ && !strings.HasPrefix(gs, os_) { // garble appends declarations (reflection support in main, -literals proxies)
				rep.Problems = append(rep.Problems, "garbled file "+on+" does not correspond to its source (declaration shape differs)")
				continue
			}
			rep.Files[on] = on
			rep.GarbledName = gf.Name.Name
			pair(of, gf, rep.Names, posName, &rep.Problems)
			// obfuscated import paths as used by this importer
			for _, oi := range of.Imports {
				opath := strings.Trim(oi.Path.Value, "\"")
				for _, gi := range gf.Imports {
					if gi.Name != nil && oi.Name != nil && gi.Name.Name == oi.Name.Name || gi.Name != nil && oi.Name == nil && gi.Name.Name == importNames[opath] {
						importsSeen[opath] = strings.Trim(gi.Path.Value, "\"")
					}
				}
			}
		}
		// garble map comparison
		if m, ok := gmap[ip]; ok {
			var files []*ast.File
			var names []string
			for n := range ofiles {
				names = append(names, n)
			}
			sort.Strings(names)
			for _, n := range names {
				files = append(files, ofiles[n])
			}
			conf := types.Config{Importer: imp, Error: func(error) {}}
			info := &types.Info{Defs: map[*ast.Ident]types.Object{}}
			pkg, _ := conf.Check(ip, fset, files, info)
			if pkg != nil {
				for path, listed := range m.Objects {
					obj, err := objectpath.Object(pkg, objectpath.Path(path))
					if err != nil {
						rep.MapWrong = append(rep.MapWrong, fmt.Sprintf("%s: cannot resolve object path: %v", path, err))
						continue
					}
					rep.MapChecked++
					rep.MapListed[describe(obj)] = listed
					built, known := posName[obj.Pos()]
					if !known {
						continue // declared inside a function body or similar: not paired
					}
					if built != listed {
						rep.MapWrong = append(rep.MapWrong, fmt.Sprintf("%s (%s): garble map says %q, the build uses %q", path, describe(obj), listed, built))
					}
				}
				// completeness: every API-reachable object whose name changed in the build must be listed
				var enc objectpath.Encoder
				for id, obj := range info.Defs {
					if obj == nil {
						continue
					}
					built, known := posName[id.Pos()]
					if !known || built == id.Name {
						continue
					}
					path, err := enc.For(obj)
					if err != nil {
						continue
					}
					if _, listed := m.Objects[string(path)]; !listed {
						rep.MapMissing = append(rep.MapMissing, fmt.Sprintf("%s (%s) is named %q in the build but is not listed", path, describe(obj), built))
					}
				}
				sort.Strings(rep.MapMissing)
				sort.Strings(rep.MapWrong)
			} else {
				rep.Problems = append(rep.Problems, "type check of original package failed")
			}
		}
		return nil
	})
	for _, rep := range reports {
		rep.GarbledDir = importsSeen[rep.ImportPath]
		if m, ok := gmap[rep.ImportPath]; ok {
			rep.MapPathOK = rep.GarbledDir == "" || m.Path == rep.GarbledDir
		}
	}
	enc := json.NewEncoder(os.Stdout)
	enc.SetIndent("", " ")
	enc.Encode(reports)
}

func describe(obj types.Object) string {
	switch o := obj.(type) {
	case *types.Var:
		if o.IsField() {
			return "field " + o.Name()
		}
		return "var " + o.Name()
	case *types.Func:
		if sig, ok := o.Type().(*types.Signature); ok && sig.Recv() != nil {
			return "method " + o.Name()
		}
		return "func " + o.Name()
	case *types.TypeName:
		return "type " + o.Name()
	case *types.Const:
		return "const " + o.Name()
	}
	return obj.Name()
}
