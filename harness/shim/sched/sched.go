// Package sched is a cooperative scheduler and stateless depth-first explorer (engine D).
// Simulated processes are goroutines; exactly one runs at a time; a scheduling point precedes every
// operation on shared state. Injected into the garble module by build overlay; never committed.
package sched

import (
	"fmt"
	"runtime"
)

type Proc struct {
	ID      int
	Name    string
	Data    any // per-process context for the harness (e.g. linker version)
	wake    chan struct{}
	exited  chan struct{}
	state   int // 0 ready (parked at a point), 1 done, 2 crashed
	enabled func() bool
	op      string
	Dead    bool // set after the execution ended: shim operations become no-ops
	Held    map[string]bool
	Err     error
	body    func(p *Proc)
}

const (
	stReady = iota
	stDone
	stCrashed
)

type Point struct {
	NNormal        int // schedulable processes (canonical order: running first, then ascending ids)
	NCrash         int // crash alternatives offered after the normal ones
	Chosen         int
	RunningEnabled bool
	Desc           string
}

type Exec struct {
	Procs    []*Proc
	cur      *Proc
	arrived  chan *Proc
	prefix   []int
	Choices  []int
	Points   []Point
	Trace    []string
	Deadlock bool
	Crashes  int
	maxCrash int
	OnCrash  func(p *Proc)
	Diverged string
	steps    int
	MaxSteps int
	Horizon  bool
}

var Current *Exec

// Cur returns the process that is running right now (nil outside an exploration).
func Cur() *Proc {
	if Current == nil {
		return nil
	}
	return Current.cur
}

// Yield is called by shimmed operations before they touch shared state.
// enabled may be nil (always enabled); a blocked operation (lock) is rescheduled only when enabled() is true.
func Yield(op string, enabled func() bool) {
	e := Current
	if e == nil {
		return
	}
	p := e.cur
	if p == nil || p.Dead {
		return
	}
	p.op, p.enabled = op, enabled
	e.arrived <- p
	<-p.wake
	if p.Dead {
		runtime.Goexit()
	}
}

func (e *Exec) isEnabled(p *Proc) bool {
	return p.state == stReady && (p.enabled == nil || p.enabled())
}

// Run executes the given process bodies under the schedule `prefix` (then default choices: 0).
func Run(prefix []int, maxCrash int, onCrash func(*Proc), mk func() []*Proc) *Exec {
	e := &Exec{prefix: prefix, arrived: make(chan *Proc), maxCrash: maxCrash, OnCrash: onCrash, MaxSteps: 5000}
	Current = e
	e.Procs = mk()
	for _, p := range e.Procs {
		p.wake = make(chan struct{})
		p.exited = make(chan struct{})
		p.Held = map[string]bool{}
		p.op = "start"
		go func(p *Proc) {
			defer close(p.exited)
			<-p.wake
			if p.Dead {
				return
			}
			defer func() {
				// normal completion, or Goexit of a process released in dead mode during tear-down
				if !p.Dead {
					p.state = stDone
					e.arrived <- nil
				}
			}()
			p.body(p)
		}(p)
	}
	var running *Proc
	for {
		// canonical order: the running process first if still enabled, then ascending ids, then crash alternatives
		var en []*Proc
		runningEnabled := running != nil && e.isEnabled(running)
		if runningEnabled {
			en = append(en, running)
		}
		for _, p := range e.Procs {
			if p != running && e.isEnabled(p) {
				en = append(en, p)
			}
		}
		nNormal := len(en)
		var crashable []*Proc
		if e.Crashes < e.maxCrash {
			for _, p := range e.Procs {
				if p.state == stReady && p.op != "start" {
					crashable = append(crashable, p)
				}
			}
		}
		total := nNormal + len(crashable)
		if nNormal == 0 {
			live := false
			for _, p := range e.Procs {
				if p.state == stReady {
					live = true
				}
			}
			if !live {
				break // all done or crashed
			}
			if len(crashable) == 0 || len(e.Choices) >= len(e.prefix) {
				e.Deadlock = true
				break
			}
		}
		choice := 0
		idx := len(e.Choices)
		if idx < len(e.prefix) {
			choice = e.prefix[idx]
			if choice >= total {
				e.Diverged = fmt.Sprintf("choice %d out of range %d at point %d", choice, total, idx)
				break
			}
		}
		if nNormal == 0 && choice < nNormal {
			e.Deadlock = true
			break
		}
		e.Choices = append(e.Choices, choice)
		if choice >= nNormal {
			p := crashable[choice-nNormal]
			e.Points = append(e.Points, Point{nNormal, len(crashable), choice, runningEnabled, "crash " + p.Name})
			e.Trace = append(e.Trace, fmt.Sprintf("CRASH %s before [%s]", p.Name, p.op))
			p.state = stCrashed
			e.Crashes++
			if e.OnCrash != nil {
				e.OnCrash(p)
			}
			if running == p {
				running = nil
			}
			continue
		}
		p := en[choice]
		e.Points = append(e.Points, Point{nNormal, len(crashable), choice, runningEnabled, p.Name + ": " + p.op})
		e.Trace = append(e.Trace, p.Name+": "+p.op)
		e.steps++
		if e.steps > e.MaxSteps {
			e.Horizon = true
			break
		}
		running = p
		e.cur = p
		p.wake <- struct{}{}
		<-e.arrived // the process reached its next point or finished
		e.cur = nil
	}
	// tear down: parked processes are released in dead mode so that their goroutines exit
	for _, p := range e.Procs {
		if p.state != stDone {
			// every such goroutine is parked on <-p.wake (at its start or inside Yield)
			p.Dead = true
			e.cur = p
			p.wake <- struct{}{}
		}
		<-p.exited
	}
	e.cur = nil
	Current = nil
	return e
}

func NewProc(id int, name string, data any, body func(p *Proc)) *Proc {
	return &Proc{ID: id, Name: name, Data: data, body: body}
}

// cost counts the preemptions (switches away from a still-enabled process) among points [0,i).
func (e *Exec) cost(i int) (pre int) {
	for k := 0; k < i; k++ {
		pt := e.Points[k]
		if pt.Chosen < pt.NNormal && pt.RunningEnabled && pt.Chosen != 0 {
			pre++
		}
	}
	return
}

type Stats struct {
	Executions  int
	Transitions int
	Deadlocks   int
	MaxDepth    int
	Horizon     int
	Capped      bool
}

// Explore enumerates every schedule with at most `bound` preemptions (bound < 0: unbounded) and at most
// maxCrash crash events; check is called on every complete execution and returns false to stop.
func Explore(bound, maxCrash, maxExec int, onCrash func(*Proc), mk func() []*Proc, check func(e *Exec) bool) Stats {
	var st Stats
	stop := false
	var rec func(prefix []int)
	rec = func(prefix []int) {
		if stop {
			return
		}
		if maxExec > 0 && st.Executions >= maxExec {
			st.Capped = true
			stop = true
			return
		}
		e := Run(prefix, maxCrash, onCrash, mk)
		if e.Diverged != "" {
			panic("schedule replay diverged: " + e.Diverged)
		}
		st.Executions++
		st.Transitions += len(e.Points)
		if len(e.Points) > st.MaxDepth {
			st.MaxDepth = len(e.Points)
		}
		if e.Deadlock {
			st.Deadlocks++
		}
		if e.Horizon {
			st.Horizon++
		}
		if !check(e) {
			stop = true
			return
		}
		for i := len(prefix); i < len(e.Points); i++ {
			pt := e.Points[i]
			pre := e.cost(i)
			for alt := 1; alt < pt.NNormal+pt.NCrash; alt++ {
				if alt < pt.NNormal {
					c := pre
					if pt.RunningEnabled {
						c++ // switching away from a runnable process is a preemption
					}
					if bound >= 0 && c > bound {
						continue
					}
				}
				rec(append(append([]int{}, e.Choices[:i]...), alt))
				if stop {
					return
				}
			}
		}
	}
	rec(nil)
	return st
}
