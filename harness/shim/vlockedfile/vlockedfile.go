// Package vlockedfile models lockedfile.MutexAt for the engine-D explorer: a lock acquisition is a
// scheduling point that is enabled iff a non-blocking flock would succeed; the lock file is created for real;
// a crashed process loses its locks (its descriptors are closed by the kernel).
package vlockedfile

import (
	"os"
	"strings"

	"mvdan.cc/garble/internal/verif/sched"
	"mvdan.cc/garble/internal/verif/vos"
)

type Mutex struct{ Path string }

func MutexAt(path string) *Mutex { return &Mutex{Path: path} }

var owner = map[string]*sched.Proc{}

func Reset() { owner = map[string]*sched.Proc{} }

// ReleaseAll drops the locks of a crashed process.
func ReleaseAll(p *sched.Proc) {
	for k, o := range owner {
		if o == p {
			delete(owner, k)
		}
	}
}

func (m *Mutex) Lock() (unlock func(), err error) {
	p := sched.Cur()
	if p == nil {
		return func() {}, nil
	}
	if p.Dead {
		return func() {}, os.ErrClosed
	}
	name := strings.TrimPrefix(m.Path, vos.Shared)
	sched.Yield("lock "+name, func() bool { return owner[m.Path] == nil })
	if owner[m.Path] != nil {
		panic("vlockedfile: scheduled a blocked lock")
	}
	owner[m.Path] = p
	f, err := os.OpenFile(m.Path, os.O_RDWR|os.O_CREATE, 0o666)
	if err == nil {
		f.Close()
	}
	return func() {
		q := sched.Cur()
		if q != nil && q.Dead {
			return
		}
		sched.Yield("unlock "+name, nil)
		if owner[m.Path] == p {
			delete(owner, m.Path)
		}
	}, nil
}
