// Package vexec mirrors the subset of os/exec used by garble's linker cache code. Commands are
// dispatched to handlers registered by the harness (stubs performing the same operations on the shared
// directory as the real programs, see DESIGN.md 3.D); unregistered commands run for real.
package vexec

import (
	"bytes"
	"io"
	"os"
	"os/exec"
	"path/filepath"
)

type Cmd struct {
	Path   string
	Args   []string
	Env    []string
	Dir    string
	Stdin  io.Reader
	Stdout io.Writer
	Stderr io.Writer
}

type ExitError = exec.ExitError

// Handler returns the combined output and an error.
type Handler func(c *Cmd) ([]byte, error)

var Handlers = map[string]Handler{}

func Command(name string, args ...string) *Cmd {
	return &Cmd{Path: name, Args: append([]string{name}, args...)}
}

func (c *Cmd) Environ() []string {
	if c.Env != nil {
		return c.Env
	}
	return os.Environ()
}

func (c *Cmd) String() string { return c.Path }

func (c *Cmd) run() ([]byte, error) {
	if h := Handlers[filepath.Base(c.Path)]; h != nil {
		return h(c)
	}
	rc := exec.Command(c.Path, c.Args[1:]...)
	rc.Env, rc.Dir, rc.Stdin = c.Env, c.Dir, c.Stdin
	return rc.CombinedOutput()
}

func (c *Cmd) CombinedOutput() ([]byte, error) { return c.run() }
func (c *Cmd) Output() ([]byte, error)         { return c.run() }
func (c *Cmd) Run() error {
	out, err := c.run()
	if c.Stdout != nil {
		c.Stdout.Write(out)
	}
	return err
}

var _ = bytes.NewReader
