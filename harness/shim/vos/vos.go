// Package vos mirrors the subset of package os used by garble's linker cache code. Every call performs
// the real operation on the real file system; operations on paths below Shared are preceded by a
// scheduling point of the engine-D explorer and attributed to the running simulated process.
package vos

import (
	"io/fs"
	"os"
	"strings"

	"mvdan.cc/garble/internal/verif/sched"
)

// Shared is the directory tree that simulated processes share (GARBLE_CACHE). Everything else is private.
var Shared string

type (
	FileMode = os.FileMode
	FileInfo = os.FileInfo
	DirEntry = os.DirEntry
)

const (
	O_RDONLY = os.O_RDONLY
	O_WRONLY = os.O_WRONLY
	O_RDWR   = os.O_RDWR
	O_APPEND = os.O_APPEND
	O_CREATE = os.O_CREATE
	O_EXCL   = os.O_EXCL
	O_TRUNC  = os.O_TRUNC
)

var (
	ErrNotExist = os.ErrNotExist
	ErrExist    = os.ErrExist
	Stderr      = os.Stderr
	Stdout      = os.Stdout
	Args        = os.Args
)

func shared(path string) bool {
	return Shared != "" && strings.HasPrefix(path, Shared)
}

func rel(path string) string { return strings.TrimPrefix(path, Shared) }

func dead() bool {
	p := sched.Cur()
	return p != nil && p.Dead
}

func point(op, path string) {
	if shared(path) {
		sched.Yield(op+" "+rel(path), nil)
	}
}

var errDead = &fs.PathError{Op: "dead", Path: "", Err: fs.ErrClosed}

func IsNotExist(err error) bool { return os.IsNotExist(err) }
func IsExist(err error) bool    { return os.IsExist(err) }
func Getenv(k string) string    { return os.Getenv(k) }
func Environ() []string         { return os.Environ() }
func Setenv(k, v string) error  { return os.Setenv(k, v) }
func TempDir() string           { return os.TempDir() }
func Exit(code int)             { os.Exit(code) }

func MkdirAll(path string, perm FileMode) error {
	if dead() {
		return errDead
	}
	if shared(path) {
		if _, err := os.Stat(path); err == nil {
			return nil // already there: no effect on shared state, no scheduling point needed
		}
	}
	point("mkdirall", path)
	return os.MkdirAll(path, perm)
}

func Mkdir(path string, perm FileMode) error {
	if dead() {
		return errDead
	}
	point("mkdir", path)
	return os.Mkdir(path, perm)
}

func MkdirTemp(dir, pattern string) (string, error) { return os.MkdirTemp(dir, pattern) }

func Stat(path string) (FileInfo, error) {
	if dead() {
		return nil, errDead
	}
	point("stat", path)
	return os.Stat(path)
}

func Lstat(path string) (FileInfo, error) {
	if dead() {
		return nil, errDead
	}
	point("lstat", path)
	return os.Lstat(path)
}

func ReadFile(path string) ([]byte, error) {
	if dead() {
		return nil, errDead
	}
	point("readfile", path)
	return os.ReadFile(path)
}

// WriteFile is not atomic in package os (open with O_TRUNC, write, close): two scheduling points.
func WriteFile(path string, data []byte, perm FileMode) error {
	if dead() {
		return errDead
	}
	if !shared(path) {
		return os.WriteFile(path, data, perm)
	}
	point("open(O_TRUNC|O_CREATE)", path)
	f, err := os.OpenFile(path, os.O_WRONLY|os.O_CREATE|os.O_TRUNC, perm)
	if err != nil {
		return err
	}
	track(f)
	point("write+close", path)
	if dead() {
		return errDead
	}
	_, err = f.Write(data)
	untrack(f)
	if err1 := f.Close(); err == nil {
		err = err1
	}
	return err
}

func Remove(path string) error {
	if dead() {
		return errDead
	}
	point("remove", path)
	return os.Remove(path)
}

func RemoveAll(path string) error {
	if dead() {
		return errDead
	}
	point("removeall", path)
	return os.RemoveAll(path)
}

func Rename(a, b string) error {
	if dead() {
		return errDead
	}
	if shared(a) || shared(b) {
		sched.Yield("rename "+rel(a)+" -> "+rel(b), nil)
	}
	return os.Rename(a, b)
}

func Chtimes(path string, a, m interface{}) error { return nil }

func ReadDir(path string) ([]DirEntry, error) {
	if dead() {
		return nil, errDead
	}
	point("readdir", path)
	return os.ReadDir(path)
}

// File wraps *os.File; reads and writes of shared files are scheduling points.
type File struct {
	f      *os.File
	path   string
	shared bool
}

// open descriptors per simulated process, closed when the process is crashed (as the kernel would)
var openFiles = map[*sched.Proc]map[*os.File]bool{}

func track(f *os.File) {
	p := sched.Cur()
	if p == nil {
		return
	}
	if openFiles[p] == nil {
		openFiles[p] = map[*os.File]bool{}
	}
	openFiles[p][f] = true
}

func untrack(f *os.File) {
	if p := sched.Cur(); p != nil && openFiles[p] != nil {
		delete(openFiles[p], f)
	}
}

// CloseAll closes the descriptors of a crashed process.
func CloseAll(p *sched.Proc) {
	for f := range openFiles[p] {
		f.Close()
	}
	delete(openFiles, p)
}

func Reset() { openFiles = map[*sched.Proc]map[*os.File]bool{} }

func OpenFile(path string, flag int, perm FileMode) (*File, error) {
	if dead() {
		return nil, errDead
	}
	desc := "open"
	if flag&os.O_TRUNC != 0 {
		desc = "open(O_TRUNC)"
	} else if flag&(os.O_WRONLY|os.O_RDWR) != 0 {
		desc = "open(write)"
	}
	point(desc, path)
	f, err := os.OpenFile(path, flag, perm)
	if err != nil {
		return nil, err
	}
	if shared(path) {
		track(f)
	}
	return &File{f, path, shared(path)}, nil
}

func Open(path string) (*File, error) { return OpenFile(path, os.O_RDONLY, 0) }

func Create(path string) (*File, error) {
	return OpenFile(path, os.O_RDWR|os.O_CREATE|os.O_TRUNC, 0o666)
}

func CreateTemp(dir, pattern string) (*File, error) {
	f, err := os.CreateTemp(dir, pattern)
	if err != nil {
		return nil, err
	}
	return &File{f, f.Name(), false}, nil
}

func (f *File) Name() string { return f.path }

func (f *File) Read(b []byte) (int, error) {
	if dead() {
		return 0, errDead
	}
	if f.shared {
		sched.Yield("read "+rel(f.path), nil)
	}
	return f.f.Read(b)
}

func (f *File) Write(b []byte) (int, error) {
	if dead() {
		return 0, errDead
	}
	if f.shared {
		sched.Yield("write "+rel(f.path), nil)
	}
	return f.f.Write(b)
}

func (f *File) Close() error {
	if f.shared {
		untrack(f.f)
	}
	return f.f.Close()
}

func (f *File) Stat() (FileInfo, error) { return f.f.Stat() }
func (f *File) Truncate(n int64) error {
	if dead() {
		return errDead
	}
	if f.shared {
		sched.Yield("truncate "+rel(f.path), nil)
	}
	return f.f.Truncate(n)
}
func (f *File) Seek(off int64, whence int) (int64, error) { return f.f.Seek(off, whence) }
func (f *File) Sync() error                               { return nil }
