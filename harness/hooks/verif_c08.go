//go:build verif

package main

import (
	"fmt"
	"strings"
)

// C08 function seam: the run-time name replacer that garble injects into the binary, compared with
// strings.NewReplacer on every pair list of <= 3 pairs over short keys that share prefixes, x every
// input over {a,b,c} up to a length bound.
func init() {
	verifModes["c08repl"] = func() any {
		type res struct {
			Lists       int              `json:"pair_lists"`
			Comparisons int64            `json:"comparisons"`
			Changed     int64            `json:"inputs_changed_by_replacement"`
			Samples     []string         `json:"samples"`
			Violations  []verifViolation `json:"violations"`
		}
		r := &res{}
		maxIn := verifEnvInt("VERIF_C08_MAXINPUT", 6)
		var keys []string
		var gen func(prefix string, n int)
		gen = func(prefix string, n int) {
			if prefix != "" {
				keys = append(keys, prefix)
			}
			if n == 0 {
				return
			}
			for _, c := range "ab" {
				gen(prefix+string(c), n-1)
			}
		}
		gen("", 3)
		// garble emits the pairs sorted by obfuscated name
		sortStrings(keys)
		vals := []string{"X", "", "ab", "Yb"}
		var inputs []string
		var genIn func(prefix string, n int)
		genIn = func(prefix string, n int) {
			inputs = append(inputs, prefix)
			if n == 0 {
				return
			}
			for _, c := range "abc" {
				genIn(prefix+string(c), n-1)
			}
		}
		genIn("", maxIn)
		check := func(pairs []string) {
			r.Lists++
			want := strings.NewReplacer(pairs...)
			got := _makeGenericReplacer(pairs)
			for _, in := range inputs {
				r.Comparisons++
				w, g := want.Replace(in), got.Replace(in)
				if w != in {
					r.Changed++
				}
				if w != g {
					r.Violations = appendOnce(r.Violations, fmt.Sprintf("replacer-differs:%dpairs", len(pairs)/2),
						fmt.Sprintf("pairs %q input %q: injected replacer gives %q, strings.NewReplacer gives %q", pairs, in, g, w))
				}
			}
			if r.Lists%1500 == 1 && len(r.Samples) < 6 {
				r.Samples = append(r.Samples, fmt.Sprintf("pairs %q: %q -> %q", pairs, inputs[len(inputs)/3], got.Replace(inputs[len(inputs)/3])))
			}
		}
		for i := range keys {
			for _, v1 := range vals {
				check([]string{keys[i], v1})
				for j := i + 1; j < len(keys); j++ {
					for _, v2 := range vals[:3] {
						check([]string{keys[i], v1, keys[j], v2})
						for k := j + 1; k < len(keys); k++ {
							for _, v3 := range vals[:2] {
								check([]string{keys[i], v1, keys[j], v2, keys[k], v3})
							}
						}
					}
				}
			}
		}
		// realistic shape: hashed names (6..12 chars) that are prefixes of one another, inside type strings
		hashed := []string{"AQ45rr68K", "AQ45rr", "AQ45rr68Kx9", "hNfiW5O5LVq", "ipq5aQSIqN", "ipq5aQ"}
		sortStrings(hashed)
		var pairs []string
		for i, h := range hashed {
			pairs = append(pairs, h, fmt.Sprintf("Orig%d", i))
		}
		for _, in := range []string{"*struct { AQ45rr68K string; ipq5aQSIqN string; hNfiW5O5LVq struct { AQ45rr string } }", "AQ45rr68Kx9.ipq5aQ", "AQ45rAQ45rr68", "", "xAQ45rr68Kx"} {
			r.Comparisons++
			if w, g := strings.NewReplacer(pairs...).Replace(in), _makeGenericReplacer(pairs).Replace(in); w != g {
				r.Violations = appendOnce(r.Violations, "replacer-differs:hashed-prefixes", fmt.Sprintf("pairs %q input %q: %q vs %q", pairs, in, g, w))
			}
		}
		return r
	}
}

func sortStrings(s []string) {
	for i := 1; i < len(s); i++ {
		for j := i; j > 0 && s[j] < s[j-1]; j-- {
			s[j], s[j-1] = s[j-1], s[j]
		}
	}
}
