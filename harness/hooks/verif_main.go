//go:build verif

// Injected into package main of garble by `go build -overlay -tags verif` (never committed to the
// repository). When GARBLE_VERIF_MODE is set, the process runs one function-seam harness against
// garble's real internal functions and exits before main.
package main

import (
	"encoding/json"
	"fmt"
	"os"
)

var verifModes = map[string]func() any{}

func init() {
	mode := os.Getenv("GARBLE_VERIF_MODE")
	if mode == "" {
		return
	}
	fn := verifModes[mode]
	if fn == nil {
		fmt.Fprintf(os.Stderr, "unknown GARBLE_VERIF_MODE %q\n", mode)
		os.Exit(2)
	}
	res := fn()
	enc := json.NewEncoder(os.Stdout)
	if err := enc.Encode(res); err != nil {
		fmt.Fprintln(os.Stderr, err)
		os.Exit(2)
	}
	os.Exit(0)
}

type verifViolation struct {
	Sig  string `json:"sig"`
	What string `json:"what"`
}

func verifEnvInt(name string, def int) int {
	var n int
	if _, err := fmt.Sscanf(os.Getenv(name), "%d", &n); err != nil {
		return def
	}
	return n
}
