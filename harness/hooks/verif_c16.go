//go:build verif

package main

import (
	"crypto/sha256"
	"encoding/base64"
	"fmt"
	"go/token"
	mathrand "math/rand"
	"unicode"
	"unicode/utf8"
)

// C16: hashWithCustomSalt / randomName driven over a deterministic enumeration of (salt, seed, name)
// until every cell {first base64 symbol} x {length} x {name class} has been hit >= minHits times.

type c16Result struct {
	Calls        int             `json:"calls"`
	Cells        int             `json:"cells"`
	CellsHit     int             `json:"cells_hit"`
	MinHits      int             `json:"min_hits"`
	DashCells    int             `json:"dash_cells_hit"`
	DistinctIn   int             `json:"distinct_inputs"`
	DistinctOut  int             `json:"distinct_outputs"`
	Clashes      int             `json:"clashes_total"`
	Genuine      int             `json:"clashes_genuine"`
	RandomNames  int             `json:"random_names"`
	Samples      []string        `json:"samples"`
	Violations   []verifViolation `json:"violations"`
	Exhaustive   bool            `json:"exhaustive"`
	LengthHist   map[int]int     `json:"length_hist"`
}

var c16Classes = []string{"expASCII", "unexpASCII", "expUnicode", "unexpUnicode", "underscore", "nonIdent"}

func c16Name(class string, i int) string {
	switch class {
	case "expASCII":
		return fmt.Sprintf("Name%d", i)
	case "unexpASCII":
		return fmt.Sprintf("name%d", i)
	case "expUnicode":
		return fmt.Sprintf("Ünï%dÉ", i)
	case "unexpUnicode":
		return fmt.Sprintf("ünï%d世", i)
	case "underscore":
		return fmt.Sprintf("_n%d", i)
	default:
		switch i % 4 {
		case 0:
			return fmt.Sprintf("example.com/a-b/c.d%d", i)
		case 1:
			return fmt.Sprintf("file%d.go:%d", i, i*7)
		case 2:
			return fmt.Sprintf("%d", i)
		}
		return fmt.Sprintf("a b\x00%d", i)
	}
}

// c16Raw is the reference: the unmodified base64url prefix that the name must derive from.
func c16Raw(salt, seed []byte, name string) (raw string, length int) {
	h := sha256.New()
	h.Write(salt)
	h.Write(seed)
	h.Write([]byte(name))
	sum := h.Sum(nil)
	length = 6 + int(sum[9]%7)
	return base64.URLEncoding.WithPadding(base64.NoPadding).EncodeToString(sum[:9])[:length], length
}

func c16Check(salt, seed []byte, name, got string) (sig, what string) {
	raw, length := c16Raw(salt, seed, name)
	if !token.IsIdentifier(got) {
		return "not-identifier", fmt.Sprintf("%q is not a Go identifier", got)
	}
	if len(got) < 6 || len(got) > 12 {
		return "length-range", fmt.Sprintf("%q has length %d", got, len(got))
	}
	for i := 0; i < len(got); i++ {
		b := got[i]
		if !(b == '_' || '0' <= b && b <= '9' || 'a' <= b && b <= 'z' || 'A' <= b && b <= 'Z') {
			return "charset", fmt.Sprintf("%q has byte %q", got, b)
		}
	}
	if token.IsIdentifier(name) {
		r, _ := utf8.DecodeRuneInString(got)
		if token.IsExported(name) != unicode.IsUpper(r) {
			return "export-flip", fmt.Sprintf("name %q exported=%v but %q exported=%v", name, token.IsExported(name), got, unicode.IsUpper(r))
		}
	}
	// genuine-collision model: the name must carry the hash prefix, up to the documented lossy fix-ups.
	if len(got) != length {
		return "length-derivation", fmt.Sprintf("%q: expected length %d from hash byte", got, length)
	}
	for i := 1; i < len(got); i++ {
		want := raw[i]
		if want == '-' {
			want = 'a'
		}
		if got[i] != want {
			return "entropy-loss", fmt.Sprintf("%q does not carry hash prefix %q at %d", got, raw, i)
		}
	}
	f := raw[0]
	ok := false
	switch {
	case f == '-':
		ok = got[0] == 'a' || got[0] == 'A'
	case f == '_':
		ok = got[0] == '_' || got[0] == 'Z'
	case '0' <= f && f <= '9':
		u := f + ('A' - '0')
		ok = got[0] == u || got[0] == u+('a'-'A')
	default:
		ok = got[0]|0x20 == f|0x20
	}
	if !ok {
		return "first-char", fmt.Sprintf("%q first char not derived from hash prefix %q", got, raw)
	}
	return "", ""
}

func init() {
	verifModes["c16"] = func() any {
		minHits := verifEnvInt("VERIF_C16_MINHITS", 3)
		maxCalls := verifEnvInt("VERIF_C16_MAXCALLS", 3000000)
		nDistinct := verifEnvInt("VERIF_C16_DISTINCT", 20000)
		res := &c16Result{MinHits: minHits, LengthHist: map[int]int{}}
		addV := func(sig, what string) {
			for _, v := range res.Violations {
				if v.Sig == sig {
					return
				}
			}
			res.Violations = append(res.Violations, verifViolation{sig, what})
		}
		const b64 = "ABCDEFGHIJKLMNOPQRSTUVWXYZabcdefghijklmnopqrstuvwxyz0123456789-_"
		type cell struct {
			first byte
			ln    int
			class int
		}
		hits := map[cell]int{}
		res.Cells = 64 * 7 * len(c16Classes)
		dashCells := map[[2]int]bool{} // (position, length)
		seeds := [][]byte{nil, []byte("seedAAAA"), []byte("\x00\xff\x10seedB"), []byte("0123456789abcdef")}
		salts := [][]byte{[]byte("example.com/pkg|"), {0x01}, []byte("\xde\xad\xbe\xef\x00\x01\x02\x03\x04\x05\x06\x07\x08\x09\x0a")}
		full := func() bool {
			if len(hits) < res.Cells {
				return false
			}
			for _, n := range hits {
				if n < minHits {
					return false
				}
			}
			return true
		}
		savedSeed := flagSeed
		defer func() { flagSeed = savedSeed }()
		type held struct {
			salt, seed []byte
			name, got  string
		}
		var ring []held
		rnd := mathrand.New(mathrand.NewSource(1))
		i := 0
		for ; res.Calls < maxCalls; i++ {
			if i%4096 == 0 && full() {
				break
			}
			class := i % len(c16Classes)
			name := c16Name(c16Classes[class], i/len(c16Classes))
			salt := salts[(i/7)%len(salts)]
			seed := seeds[(i/3)%len(seeds)]
			flagSeed.bytes = seed
			got := hashWithCustomSalt(salt, name)
			res.Calls++
			raw, _ := c16Raw(salt, seed, name)
			hits[cell{raw[0], len(raw), class}]++
			res.LengthHist[len(got)]++
			for p := 0; p < len(raw); p++ {
				if raw[p] == '-' {
					dashCells[[2]int{p, len(raw)}] = true
				}
			}
			if sig, what := c16Check(salt, seed, name, got); sig != "" {
				addV(sig, fmt.Sprintf("salt=%q seed=%q name=%q: %s", salt, seed, name, what))
			}
			if len(res.Samples) < 12 && i%5 == 0 {
				res.Samples = append(res.Samples, fmt.Sprintf("salt=%q seed=%q name=%q -> %s (raw %s)", salt, seed, name, got, raw))
			}
			// purity with other calls interleaved (the function shares global buffers)
			ring = append(ring, held{salt, seed, name, got})
			if len(ring) > 64 {
				ring = ring[1:]
			}
			if i%17 == 0 {
				_ = randomName(rnd, "helper")
				res.RandomNames++
				h := ring[(i/17)%len(ring)]
				flagSeed.bytes = h.seed
				again := hashWithCustomSalt(h.salt, h.name)
				res.Calls++
				if again != h.got {
					addV("not-pure", fmt.Sprintf("salt=%q seed=%q name=%q gave %q then %q", h.salt, h.seed, h.name, h.got, again))
				}
			}
		}
		res.Exhaustive = full()
		for _, n := range hits {
			if n >= minHits {
				res.CellsHit++
			}
		}
		res.DashCells = len(dashCells)
		_ = b64

		// randomName: same generator state => same name; result well-formed.
		for k := 0; k < 2000; k++ {
			r1 := mathrand.New(mathrand.NewSource(int64(k)))
			r2 := mathrand.New(mathrand.NewSource(int64(k)))
			base := c16Name(c16Classes[k%5], k)
			flagSeed.bytes = seeds[k%len(seeds)]
			a := randomName(r1, base)
			_ = hashWithCustomSalt(salts[0], "other")
			b := randomName(r2, base)
			res.RandomNames += 2
			if a != b {
				addV("randomName-not-pure", fmt.Sprintf("seed %d base %q: %q vs %q", k, base, a, b))
			}
			if !token.IsIdentifier(a) || len(a) < 6 || len(a) > 12 {
				addV("randomName-malformed", fmt.Sprintf("seed %d base %q: %q", k, base, a))
			}
			if token.IsExported(base) != token.IsExported(a) {
				addV("randomName-export-flip", fmt.Sprintf("base %q -> %q", base, a))
			}
		}

		// distinctness: per salt, nDistinct distinct identifiers; a clash is legitimate only if the
		// canonicalised hash prefixes agree.
		canon := func(raw string) string {
			b := []byte(raw)
			for i := range b {
				if b[i] == '-' {
					b[i] = 'a'
				}
			}
			if '0' <= b[0] && b[0] <= '9' {
				b[0] += 'A' - '0'
			}
			if b[0] == '_' {
				b[0] = 'z' // _ and Z/z may merge for exported names
			}
			b[0] |= 0x20
			return string(b)
		}
		for si, salt := range salts {
			flagSeed.bytes = seeds[si%len(seeds)]
			byOut := map[string]string{}
			for k := 0; k < nDistinct; k++ {
				name := c16Name(c16Classes[k%5], k)
				got := hashWithCustomSalt(salt, name)
				res.DistinctIn++
				if prev, ok := byOut[got]; ok {
					res.Clashes++
					r1, _ := c16Raw(salt, flagSeed.bytes, prev)
					r2, _ := c16Raw(salt, flagSeed.bytes, name)
					if canon(r1) == canon(r2) {
						res.Genuine++
					} else {
						addV("clash-without-hash-collision", fmt.Sprintf("salt=%q: %q and %q both -> %q (raw %q, %q)", salt, prev, name, got, r1, r2))
					}
				} else {
					byOut[got] = name
				}
			}
			res.DistinctOut += len(byOut)
		}
		return res
	}
}
