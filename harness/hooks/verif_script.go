//go:build verif

package main

import (
	mathrand "math/rand"
	"runtime"
	"strconv"
	"strings"
)

// verifScript is a scripted math/rand Source (engine B): a base stream (PRNG, all-zero, all-max, counting)
// with single draws overridden by the explorer; optionally records the garble function that made each draw.
type verifScript struct {
	base   string
	over   map[int]int64
	prng   mathrand.Source
	n      int
	sites  []string
	record bool
	cnt    int64
	pkgs   []string // function-name substrings identifying garble code for call-site attribution
	mark   int      // draw count at the start of the current unit of work (see budget)
}

// verifDrawBudget bounds the draws of one unit of work: a near-constant scripted stream can make a
// retry-until-distinct loop spin forever, which says nothing about a real generator (reported as inconclusive).
const verifDrawBudget = 300000

func newVerifScript(base string, over map[int]int64, record bool, pkgs ...string) *verifScript {
	s := &verifScript{base: base, over: over, record: record, pkgs: pkgs}
	if strings.HasPrefix(base, "prng:") {
		seed, _ := strconv.ParseInt(base[5:], 10, 64)
		s.prng = mathrand.NewSource(seed)
	}
	return s
}

func (s *verifScript) Seed(int64) {}

func (s *verifScript) Int63() int64 {
	i := s.n
	s.n++
	if s.n-s.mark > verifDrawBudget {
		panic("verif: draw budget exceeded")
	}
	var v int64
	switch {
	case s.prng != nil:
		v = s.prng.Int63()
	case s.base == "zero":
		// near-zero stream; a constant stream would spin forever inside math/rand's own rejection sampling
		v = []int64{0, 1, 2, 3, 5, 7, 11, 13}[i%8] << 32
	case s.base == "max":
		v = (1<<31-1-[]int64{0, 1, 2, 3, 5, 7, 4096, 1 << 20}[i%8])<<32 | 0xffffffff
	case s.base == "count":
		s.cnt += 0x0101010101010101
		v = s.cnt & (1<<63 - 1)
	}
	if o, ok := s.over[i]; ok {
		v = o
	}
	if s.record {
		s.sites = append(s.sites, s.callSite())
	}
	return v
}

func (s *verifScript) callSite() string {
	var pcs [32]uintptr
	n := runtime.Callers(3, pcs[:])
	frames := runtime.CallersFrames(pcs[:n])
	for {
		f, more := frames.Next()
		for _, p := range s.pkgs {
			if i := strings.Index(f.Function, p); i >= 0 {
				return f.Function[i+len(p):]
			}
		}
		if !more {
			return "?"
		}
	}
}

var verifAltValues = []int64{
	0, 1 << 32, 2 << 32, 3 << 32, 7 << 32, 255 << 32, 256 << 32, (1<<31 - 2) << 32,
	0x00FFFFFF << 32, 1<<63 - 1, 0x0101010101010101,
}
