//go:build verif

package main

import (
	"encoding/json"
	"fmt"
	"os"
	"slices"
	"strings"
)

// C20 function seam: every argument vector up to a length bound over the go command's real flag set
// (flag table and boolean-ness are probed from the real go binary by the Python driver and passed in
// on stdin), compared with an obvious reference splitter.

type c20Universe struct {
	Name     string          `json:"name"`
	Bool     map[string]bool `json:"bool"`     // flag name ("-tags") -> takes no value
	Required []string        `json:"required"` // build-affecting flags that must be forwarded
	DontCare []string        `json:"dontcare"` // may or may not be forwarded
	Values   []string        `json:"values"`
	MaxLen   int             `json:"maxlen"`
	Reduced  []string        `json:"reduced"` // representative flags for the deeper enumeration
	RedLen   int             `json:"redlen"`
	Shard    int             `json:"shard"`
	Shards   int             `json:"shards"`
}

type c20Out struct {
	Universe    string           `json:"universe"`
	Vectors     int64            `json:"vectors"`
	Alphabet    int              `json:"alphabet"`
	RedAlphabet int              `json:"reduced_alphabet"`
	Outcomes    int              `json:"distinct_split_points"`
	NonTrivial  int64            `json:"vectors_with_flags_and_args"`
	Forwarded   int64            `json:"vectors_with_forwarded_flags"`
	Samples     []string         `json:"samples"`
	Violations  []verifViolation `json:"violations"`
	NViol       int64            `json:"violating_vectors"`
}

func c20Norm(tok string) (name string, hasEq bool) {
	if strings.HasPrefix(tok, "--") {
		tok = tok[1:]
	}
	name, _, hasEq = strings.Cut(tok, "=")
	return name, hasEq
}

type c20Unit struct {
	flag  string // normalised token (single dash), with =value if it had one
	name  string
	value string
	hasV  bool // value in a separate word
}

// c20RefSplit is the reference: stop at the first word that does not start with "-";
// "-f=v" and boolean flags are one word, every other flag consumes the next word.
func c20RefSplit(u *c20Universe, all []string) (units []c20Unit, nflags int) {
	i := 0
	for i < len(all) {
		tok := all[i]
		if !strings.HasPrefix(tok, "-") {
			break
		}
		name, hasEq := c20Norm(tok)
		short := tok
		if strings.HasPrefix(short, "--") {
			short = short[1:]
		}
		un := c20Unit{flag: short, name: name}
		i++
		if !hasEq && !u.Bool[name] {
			if i < len(all) {
				un.value = all[i]
				un.hasV = true
				i++
			}
		}
		units = append(units, un)
	}
	return units, i
}

func c20Run(u *c20Universe) *c20Out {
	out := &c20Out{Universe: u.Name}
	var names []string
	for n := range u.Bool {
		names = append(names, n)
	}
	slices.Sort(names)
	mkAlpha := func(names []string) []string {
		var a []string
		for _, n := range names {
			a = append(a, n, "-"+n, n+"=v", "-"+n+"=v")
		}
		return append(a, u.Values...)
	}
	alpha := mkAlpha(names)
	out.Alphabet = len(alpha)
	req := map[string]bool{}
	for _, r := range u.Required {
		req[r] = true
	}
	dc := map[string]bool{}
	for _, r := range u.DontCare {
		dc[r] = true
	}
	culprits := map[string]bool{}
	addV := func(sig, what string) {
		out.NViol++
		for _, v := range out.Violations {
			if v.Sig == sig {
				return
			}
		}
		if len(out.Violations) < 200 {
			out.Violations = append(out.Violations, verifViolation{sig, what})
		}
	}
	splitPoints := map[int]bool{}
	check := func(vec []string, single bool) {
		out.Vectors++
		in := slices.Clone(vec)
		flags, args := splitFlagsFromArgs(in)
		units, n := c20RefSplit(u, vec)
		splitPoints[n] = true
		if n > 0 && n < len(vec) {
			out.NonTrivial++
		}
		if out.Vectors%200003 == 1 && len(out.Samples) < 10 {
			out.Samples = append(out.Samples, fmt.Sprintf("%q -> flags %q args %q", vec, vec[:n], vec[n:]))
		}
		if !slices.Equal(flags, vec[:n]) || !slices.Equal(args, vec[n:]) || !slices.Equal(in, vec) {
			sig := ""
			if single {
				nm := vec[0]
				if i := strings.Index(nm, "="); i >= 0 {
					nm = nm[:i]
				}
				sig = "split:" + nm
				culprits[nm] = true
			} else {
				for _, t := range vec {
					nm := t
					if i := strings.Index(nm, "="); i >= 0 {
						nm = nm[:i]
					}
					if culprits[nm] {
						sig = "split:" + nm
						break
					}
				}
				if sig == "" {
					sig = fmt.Sprintf("split:combo:%q", vec)
				}
			}
			addV(sig, fmt.Sprintf("[%s] splitFlagsFromArgs(%q) = flags %q args %q; the go command takes flags %q args %q", u.Name, vec, flags, args, vec[:n], vec[n:]))
			return
		}
		// forwarding: judged on the reference flag part
		var strict, loose []string
		for _, un := range units {
			if req[un.name] || dc[un.name] {
				loose = append(loose, un.flag)
				if un.hasV {
					loose = append(loose, un.value)
				}
			}
			if req[un.name] {
				strict = append(strict, un.flag)
				if un.hasV {
					strict = append(strict, un.value)
				}
			}
		}
		got, _ := filterForwardBuildFlags(slices.Clone(vec[:n]))
		if len(strict) > 0 {
			out.Forwarded++
		}
		if !slices.Equal(got, strict) && !slices.Equal(got, loose) {
			sig := "forward:combo"
			for _, un := range units {
				g1, _ := filterForwardBuildFlags([]string{un.flag, "x"}[:1+btoi(un.hasV)])
				var want []string
				if req[un.name] {
					want = []string{un.flag, "x"}[:1+btoi(un.hasV)]
				}
				if !slices.Equal(g1, want) && !(dc[un.name]) {
					sig = "forward:" + un.name
					break
				}
			}
			addV(sig, fmt.Sprintf("[%s] filterForwardBuildFlags(%q) = %q; expected %q", u.Name, vec[:n], got, strict))
		}
	}
	// singles first (pinpoints culprit tokens): token followed by two plain words
	for _, t := range alpha {
		check([]string{t, "x", "y"}, true)
		check([]string{t}, true)
	}
	var rec func(alpha []string, vec []string, depth, maxlen int, top bool)
	rec = func(alpha []string, vec []string, depth, maxlen int, top bool) {
		if depth > 0 {
			check(vec[:depth], false)
		}
		if depth == maxlen {
			return
		}
		for i, t := range alpha {
			if top && u.Shards > 1 && i%u.Shards != u.Shard {
				continue
			}
			vec[depth] = t
			rec(alpha, vec, depth+1, maxlen, false)
		}
	}
	buf := make([]string, 16)
	rec(alpha, buf, 0, u.MaxLen, true)
	if u.RedLen > u.MaxLen && len(u.Reduced) > 0 {
		ra := mkAlpha(u.Reduced)
		out.RedAlphabet = len(ra)
		rec(ra, buf, 0, u.RedLen, true)
	}
	out.Outcomes = len(splitPoints)
	return out
}

func btoi(b bool) int {
	if b {
		return 1
	}
	return 0
}

func init() {
	verifModes["c20"] = func() any {
		var u c20Universe
		if err := json.NewDecoder(os.Stdin).Decode(&u); err != nil {
			fmt.Fprintln(os.Stderr, "c20: bad input:", err)
			os.Exit(2)
		}
		return c20Run(&u)
	}
	// helpers on tool command lines: flagValue / flagValues / flagSetValue against a reference,
	// on every well-formed command line of up to 4 units over a small tool-flag alphabet.
	verifModes["c20tool"] = func() any {
		type res struct {
			Lines      int64            `json:"lines"`
			Violations []verifViolation `json:"violations"`
		}
		r := &res{}
		names := []string{"-o", "-p", "-trimpath", "-importcfg"}
		vals := []string{"a", "b=c", "x=>y;z", ""}
		type unit struct {
			name, val string
			eq        bool
		}
		var units []unit
		for _, n := range names {
			for _, v := range vals {
				units = append(units, unit{n, v, true}, unit{n, v, false})
			}
		}
		var rec func(line []unit)
		rec = func(line []unit) {
			if len(line) > 0 {
				var flags []string
				for _, un := range line {
					if un.eq {
						flags = append(flags, un.name+"="+un.val)
					} else {
						flags = append(flags, un.name, un.val)
					}
				}
				flags = append(flags, "-pack", "file.go")
				r.Lines++
				for _, n := range names {
					want, all := "", []string(nil)
					for _, un := range line {
						if un.name == n {
							want = un.val
							all = append(all, un.val)
						}
					}
					if got := flagValue(slices.Clone(flags), n); got != want {
						r.Violations = appendOnce(r.Violations, "flagValue", fmt.Sprintf("flagValue(%q,%q)=%q want %q", flags, n, got, want))
					}
					var gotAll []string
					for v := range flagValues(slices.Clone(flags), n) {
						gotAll = append(gotAll, v)
					}
					if !slices.Equal(gotAll, all) {
						r.Violations = appendOnce(r.Violations, "flagValues", fmt.Sprintf("flagValues(%q,%q)=%q want %q", flags, n, gotAll, all))
					}
					set := flagSetValue(slices.Clone(flags), n, "NEW")
					// after setting, the first occurrence (or an appended one) holds NEW, everything else unchanged
					seen := false
					var gotFirst string
					for v := range flagValues(set, n) {
						if !seen {
							gotFirst = v
							seen = true
						}
					}
					if !seen || gotFirst != "NEW" {
						r.Violations = appendOnce(r.Violations, "flagSetValue", fmt.Sprintf("flagSetValue(%q,%q,NEW)=%q", flags, n, set))
					}
					for _, m := range names {
						if m == n {
							continue
						}
						if flagValue(set, m) != flagValue(slices.Clone(flags), m) {
							r.Violations = appendOnce(r.Violations, "flagSetValue-clobber", fmt.Sprintf("flagSetValue(%q,%q,NEW)=%q changed %s", flags, n, set, m))
						}
					}
					if set[len(set)-1] != "file.go" && all != nil {
						r.Violations = appendOnce(r.Violations, "flagSetValue-order", fmt.Sprintf("flagSetValue(%q,%q,NEW)=%q moved the file list", flags, n, set))
					}
				}
			}
			if len(line) == 3 {
				return
			}
			for _, un := range units {
				rec(append(line, un))
			}
		}
		rec(nil)
		return r
	}
}

func appendOnce(vs []verifViolation, sig, what string) []verifViolation {
	for _, v := range vs {
		if v.Sig == sig {
			return vs
		}
	}
	return append(vs, verifViolation{sig, what})
}
