//go:build verif

package main

import (
	"bytes"
	"encoding/json"
	"fmt"
	"go/ast"
	"go/importer"
	"go/parser"
	"go/printer"
	"go/token"
	"go/types"
	"io"
	"log"
	mathrand "math/rand"
	"os"
	"path/filepath"
	"regexp"
	"runtime/debug"
	"sort"
	"strings"

	"mvdan.cc/garble/internal/ctrlflow"
)

// C11 unit seam: the real ctrlflow.Obfuscate (+ ssa2ast) on a corpus package under a scripted random source.
// For each variant the harness writes a directory with the rewritten package, to be compiled by the
// real toolchain and run by the Python driver.

type c11Variant struct {
	ID      string         `json:"id"`
	Params  string         `json:"params"`
	Base    string         `json:"base"`
	Over    map[string]int64 `json:"over"` // draw index (decimal string) -> value
	GSeed   int64          `json:"gseed"`  // seed for the process-global math/rand (must not matter)
	Only    string         `json:"only"`   // obfuscate just this function (others keep their bodies)
	Exclude []string       `json:"exclude"`
	Record  bool           `json:"record"`
}

type c11Job struct {
	Files    map[string]string `json:"files"` // file name -> source; directives carry the placeholder @P@
	OutDir   string            `json:"outdir"`
	Variants []c11Variant      `json:"variants"`
}

type c11VarResult struct {
	ID     string   `json:"id"`
	Err    string   `json:"err,omitempty"`
	Draws  int      `json:"draws"`
	Sites  []string `json:"sites,omitempty"`
	Dir    string   `json:"dir,omitempty"`
	Digest string   `json:"digest,omitempty"`
	Rejected map[string]string `json:"rejected,omitempty"`
}

var c11Importer types.ImporterFrom

func c11RunVariant(job *c11Job, v c11Variant) (res c11VarResult) {
	res.ID = v.ID
	defer func() {
		if r := recover(); r != nil {
			res.Err = fmt.Sprintf("panic: %v\n%s", r, c11TrimStack(debug.Stack()))
		}
	}()
	fset = token.NewFileSet() // garble's package-level file set
	if c11Importer == nil {
		c11Importer = importer.ForCompiler(token.NewFileSet(), "source", nil).(types.ImporterFrom)
	}
	var names []string
	for n := range job.Files {
		names = append(names, n)
	}
	sort.Strings(names)
	excl := map[string]bool{}
	for _, e := range v.Exclude {
		excl[e] = true
	}
	rxDir := regexp.MustCompile(`(?m)^//garble:controlflow @P@\n(func (?:\([^)]*\) )?(\w+))`)
	var files []*ast.File
	for _, n := range names {
		src := rxDir.ReplaceAllStringFunc(job.Files[n], func(m string) string {
			sub := rxDir.FindStringSubmatch(m)
			fn := sub[2]
			if excl[fn] || (v.Only != "" && v.Only != fn) {
				return sub[1]
			}
			p := v.Params
			if p != "" {
				p = " " + p
			}
			return "//garble:controlflow" + p + "\n" + sub[1]
		})
		f, err := parser.ParseFile(fset, n, src, parser.SkipObjectResolution|parser.ParseComments)
		if err != nil {
			res.Err = "parse: " + err.Error()
			return
		}
		files = append(files, f)
	}
	imp := importerWithMap{importFrom: c11Importer.ImportFrom}
	pkg, info, err := typecheck("main", files, imp, true)
	if err != nil {
		res.Err = "typecheck: " + err.Error()
		return
	}
	ssaPkg := ssaBuildPkg(pkg, files, info)
	over := map[int]int64{}
	for k, val := range v.Over {
		var i int
		fmt.Sscanf(k, "%d", &i)
		over[i] = val
	}
	sc := newVerifScript(v.Base, over, v.Record, "garble/internal/ctrlflow.", "garble/internal/ssa2ast.")
	mathrand.Seed(v.GSeed) // the process-global source: obfuscation must not depend on it
	rnd := mathrand.New(sc)
	// One Obfuscate call per function (sharing the random stream, as one call over all functions would), so that a
	// function garble rejects - with an error or by crashing - does not hide the others of the same variant.
	type saved struct {
		fd   *ast.FuncDecl
		doc  *ast.CommentGroup
		name *ast.Ident
		body *ast.BlockStmt
		recv *ast.FieldList
		typ  *ast.FuncType
	}
	var targets []saved
	for _, f := range files {
		for _, d := range f.Decls {
			if fd, ok := d.(*ast.FuncDecl); ok && fd.Doc != nil {
				for _, c := range fd.Doc.List {
					if strings.HasPrefix(c.Text, "//garble:controlflow") {
						targets = append(targets, saved{fd, fd.Doc, fd.Name, fd.Body, fd.Recv, fd.Type})
						fd.Doc = nil
						break
					}
				}
			}
		}
	}
	res.Rejected = map[string]string{}
	newFiles := map[string]*ast.File{}
	for _, t := range targets {
		t.fd.Doc = t.doc
		fname := t.name.Name
		sc.mark = sc.n
		func() {
			defer func() {
				if r := recover(); r != nil {
					res.Rejected[fname] = fmt.Sprintf("panic: %v | %s", r, c11TrimStack(debug.Stack()))
				}
			}()
			_, newFile, _, err := ctrlflow.Obfuscate(fset, ssaPkg, files, rnd)
			if err != nil {
				res.Rejected[fname] = "error: " + err.Error()
				return
			}
			if newFile != nil {
				newFiles["GARBLE_controlflow_"+fname+".go"] = newFile
			}
		}()
		if _, bad := res.Rejected[fname]; bad {
			// put the original function back
			t.fd.Name, t.fd.Body, t.fd.Recv, t.fd.Type = t.name, t.body, t.recv, t.typ
		}
		t.fd.Doc = nil
	}
	res.Draws = sc.n
	res.Sites = sc.sites
	dir := filepath.Join(job.OutDir, v.ID)
	os.MkdirAll(dir, 0o755)
	var all bytes.Buffer
	write := func(name string, f *ast.File) error {
		var buf bytes.Buffer
		// comments were parsed only to find directives; drop them like garble does
		f.Comments = nil
		if err := printer.Fprint(&buf, fset, f); err != nil {
			return err
		}
		all.Write(buf.Bytes())
		return os.WriteFile(filepath.Join(dir, name), buf.Bytes(), 0o644)
	}
	for i, f := range files {
		if err := write(names[i], f); err != nil {
			res.Err = "print: " + err.Error()
			return
		}
	}
	var nfNames []string
	for n := range newFiles {
		nfNames = append(nfNames, n)
	}
	sort.Strings(nfNames)
	for _, n := range nfNames {
		if err := write(n, newFiles[n]); err != nil {
			res.Err = "print: " + err.Error()
			return
		}
	}
	os.WriteFile(filepath.Join(dir, "go.mod"), []byte("module cfcorpus\n\ngo 1.26\n"), 0o644)
	res.Dir = dir
	res.Digest = fmt.Sprintf("%x", typeutil_hashString(all.String()))
	return
}

func init() {
	verifModes["c11"] = func() any {
		var job c11Job
		if err := json.NewDecoder(os.Stdin).Decode(&job); err != nil {
			fmt.Fprintln(os.Stderr, "c11: bad job:", err)
			os.Exit(2)
		}
		sharedCache = &sharedCacheType{}
		sharedCache.GoEnv.GOARCH = "amd64"
		log.SetOutput(io.Discard)
		var out []c11VarResult
		for _, v := range job.Variants {
			out = append(out, c11RunVariant(&job, v))
		}
		return out
	}
}

var _ = strings.TrimSpace

func c11TrimStack(b []byte) string {
	var keep []string
	for _, l := range strings.Split(string(b), "\n") {
		if strings.Contains(l, "garble/internal/") || strings.Contains(l, "/repo/") {
			keep = append(keep, strings.TrimSpace(l))
		}
	}
	if len(keep) > 12 {
		keep = keep[:12]
	}
	return strings.Join(keep, " | ")
}
