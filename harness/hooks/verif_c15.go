//go:build verif

package main

import (
	"fmt"
	"go/token"
	"go/types"
	"strings"
)

// C15 function seam: every struct type with <= maxFields fields over a small alphabet of field
// specs, in every declaration variant (tags, declaring package of the field objects, underlying of
// a named type, alias, origin of a generic type and its instantiation). Within every identity class
// (types.IdenticalIgnoreTags) hashWithStruct must give equal names field by field.

type c15Result struct {
	Shapes      int              `json:"shapes"`
	Structs     int              `json:"structs"`
	Classes     int              `json:"identity_classes"`
	MultiClass  int              `json:"classes_with_several_members"`
	Pairs       int64            `json:"identical_pairs_checked"`
	HashCalls   int64            `json:"hash_calls"`
	GenericInst int              `json:"generic_instantiations"`
	DistinctSalt int             `json:"distinct_first_field_names"`
	Samples     []string         `json:"samples"`
	Violations  []verifViolation `json:"violations"`
}

type c15Spec struct {
	name     string // "" for embedded
	typ      int    // index in type table
	embedded bool
}

func init() {
	verifModes["c15"] = func() any {
		maxFields := verifEnvInt("VERIF_C15_MAXFIELDS", 3)
		res := &c15Result{}
		addV := func(sig, what string) {
			res.Violations = appendOnce(res.Violations, sig, what)
		}
		pkgP := types.NewPackage("example.com/p", "p")
		pkgQ := types.NewPackage("example.com/q", "q")
		// named helper types
		mkNamedStruct := func(pkg *types.Package, name string) *types.Named {
			tn := types.NewTypeName(token.NoPos, pkg, name, nil)
			return types.NewNamed(tn, types.NewStruct([]*types.Var{types.NewField(token.NoPos, pkg, "Z", types.Typ[types.Int], false)}, nil), nil)
		}
		namedS := mkNamedStruct(pkgP, "S")
		namedN := mkNamedStruct(pkgQ, "N")
		// type table; index 2 is "the type parameter" and is substituted per context
		const tparamIdx = 2
		typeNames := []string{"int", "string", "T", "*S", "[]S", "q.N"}
		aliasN := types.NewAlias(types.NewTypeName(token.NoPos, pkgP, "AN", nil), namedN)
		useAlias := false
		mkType := func(i int, tparam types.Type) types.Type {
			if i == 5 && useAlias {
				return aliasN
			}
			switch i {
			case 0:
				return types.Typ[types.Int]
			case 1:
				return types.Typ[types.String]
			case 2:
				return tparam
			case 3:
				return types.NewPointer(namedS)
			case 4:
				return types.NewSlice(namedS)
			default:
				return namedN
			}
		}
		var specs []c15Spec
		for _, n := range []string{"A", "b", "C"} {
			for t := range typeNames {
				specs = append(specs, c15Spec{name: n, typ: t})
			}
		}
		specs = append(specs, c15Spec{embedded: true, typ: 5}, c15Spec{embedded: true, typ: 3}) // q.N, *S embedded
		fieldName := func(s c15Spec) string {
			if !s.embedded {
				return s.name
			}
			if s.typ == 5 {
				return "N"
			}
			return "S"
		}
		savedSeed, savedCache := flagSeed, sharedCache
		defer func() { flagSeed, sharedCache = savedSeed, savedCache }()
		sharedCache = &sharedCacheType{BinaryContentID: []byte("0123456789abcde"), GOGARBLE: "*"}

		build := func(shape []c15Spec, fpkg *types.Package, tagMode int, tparam types.Type) *types.Struct {
			fields := make([]*types.Var, len(shape))
			tags := make([]string, len(shape))
			for i, s := range shape {
				fields[i] = types.NewField(token.NoPos, fpkg, fieldName(s), mkType(s.typ, tparam), s.embedded)
				switch tagMode {
				case 1:
					tags[i] = `json:"x"`
				case 2:
					if i%2 == 0 {
						tags[i] = fmt.Sprintf(`k:"%d"`, i)
					}
				}
			}
			return types.NewStruct(fields, tags)
		}
		names := func(st *types.Struct) []string {
			out := make([]string, st.NumFields())
			for i := range out {
				out[i] = hashWithStruct(st, st.Field(i))
				res.HashCalls++
			}
			return out
		}
		firstNames := map[string]bool{}
		var shape []c15Spec
		var rec func()
		checkShape := func() {
			res.Shapes++
			hasT := false
			for _, s := range shape {
				if s.typ == tparamIdx {
					hasT = true
				}
			}
			type member struct {
				st   *types.Struct
				desc string
			}
			// variants that are all meant to be in one identity class per (field package): tags do not matter,
			// the struct may be the underlying type of a named type, behind an alias, or an instantiation.
			for _, seeded := range []bool{false, true} {
				if seeded {
					flagSeed.bytes = []byte("seedseed")
				} else {
					flagSeed.bytes = nil
				}
				var classes [][]member
				add := func(m member) {
					res.Structs++
					for ci, c := range classes {
						if types.IdenticalIgnoreTags(c[0].st, m.st) {
							classes[ci] = append(classes[ci], m)
							return
						}
					}
					classes = append(classes, []member{m})
				}
				for _, fpkg := range []*types.Package{pkgP, pkgQ} {
					for tagMode := 0; tagMode < 3; tagMode++ {
						if !hasT {
							st := build(shape, fpkg, tagMode, types.Typ[types.Int])
							add(member{st, fmt.Sprintf("plain fields-in=%s tags=%d", fpkg.Name(), tagMode)})
							if tagMode == 0 {
								// the same struct with q.N spelled through an alias (identical type)
								useAlias = true
								add(member{build(shape, fpkg, 0, types.Typ[types.Int]), "q.N spelled via alias, fields-in=" + fpkg.Name()})
								useAlias = false
								// underlying of a named type and behind an alias
								tn := types.NewTypeName(token.NoPos, fpkg, "Named", nil)
								named := types.NewNamed(tn, st, nil)
								add(member{named.Underlying().(*types.Struct), "underlying of named " + fpkg.Name()})
								al := types.NewAlias(types.NewTypeName(token.NoPos, pkgQ, "Al", nil), build(shape, fpkg, 1, types.Typ[types.Int]))
								add(member{types.Unalias(al).(*types.Struct), "behind alias " + fpkg.Name()})
							}
							continue
						}
						// generic: origin struct{.. T ..} of G[T], its instantiation G[int], and the plain struct with int
						tpn := types.NewTypeName(token.NoPos, fpkg, "T", nil)
						tp := types.NewTypeParam(tpn, types.NewInterfaceType(nil, nil))
						origin := build(shape, fpkg, tagMode, tp)
						gtn := types.NewTypeName(token.NoPos, fpkg, "G", nil)
						gen := types.NewNamed(gtn, origin, nil)
						gen.SetTypeParams([]*types.TypeParam{tp})
						for _, targ := range []types.Type{types.Typ[types.Int], namedN, types.NewPointer(namedS)} {
							inst, err := types.Instantiate(nil, gen, []types.Type{targ}, true)
							if err != nil {
								panic(err)
							}
							res.GenericInst++
							instSt := inst.Underlying().(*types.Struct)
							plain := build(shape, fpkg, tagMode, targ)
							add(member{plain, fmt.Sprintf("plain(T:=%s) fields-in=%s tags=%d", targ, fpkg.Name(), tagMode)})
							add(member{instSt, fmt.Sprintf("underlying of G[%s] fields-in=%s tags=%d", targ, fpkg.Name(), tagMode)})
							// the origin is not identical to the instance for go/types, but garble names fields from the origin:
							// the names must coincide with those of the instantiation (this is what makes conversions compile).
							on, in := names(origin), names(instSt)
							for i := range on {
								if on[i] != in[i] {
									addV("generic-origin-vs-instance", fmt.Sprintf("seeded=%v shape %s: field %d named %q in the generic origin but %q in its instantiation with %s", seeded, c15ShapeString(shape, typeNames), i, on[i], in[i], targ))
								}
							}
						}
					}
				}
				res.Classes += len(classes)
				for _, c := range classes {
					if len(c) > 1 {
						res.MultiClass++
					}
					ref := names(c[0].st)
					if len(ref) > 0 {
						firstNames[ref[0]] = true
					}
					for _, m := range c[1:] {
						got := names(m.st)
						res.Pairs++
						for i := range ref {
							if got[i] != ref[i] {
								addV("identical-structs-differ", fmt.Sprintf("seeded=%v shape %s: field %d is %q for [%s] but %q for [%s]", seeded, c15ShapeString(shape, typeNames), i, ref[i], c[0].desc, got[i], m.desc))
							}
						}
					}
				}
				if len(res.Samples) < 8 && res.Shapes%97 == 1 && seeded {
					res.Samples = append(res.Samples, fmt.Sprintf("%s -> %d structs in %d classes, names %v", c15ShapeString(shape, typeNames), len(classes[0]), len(classes), names(classes[0][0].st)))
				}
			}
		}
		rec = func() {
			if len(shape) > 0 {
				checkShape()
			}
			if len(shape) == maxFields {
				return
			}
			for _, s := range specs {
				dup := false
				for _, o := range shape {
					if fieldName(o) == fieldName(s) {
						dup = true
					}
				}
				if dup {
					continue
				}
				shape = append(shape, s)
				rec()
				shape = shape[:len(shape)-1]
			}
		}
		rec()
		res.DistinctSalt = len(firstNames)
		return res
	}
}

func c15ShapeString(shape []c15Spec, typeNames []string) string {
	var b strings.Builder
	b.WriteString("struct{")
	for i, s := range shape {
		if i > 0 {
			b.WriteString("; ")
		}
		if s.embedded {
			b.WriteString(typeNames[s.typ])
		} else {
			b.WriteString(s.name + " " + typeNames[s.typ])
		}
	}
	b.WriteString("}")
	return b.String()
}
