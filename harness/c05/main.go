// C05 unit seam (engine B): drives the real literals.Obfuscate under a scripted random source and
// emits Go programs whose execution (compiled by the real gc compiler) decides whether every
// obfuscated literal evaluates to its original bytes. Injected by build overlay; never committed.
package main

import (
	"bytes"
	"encoding/json"
	"fmt"
	"go/ast"
	"go/parser"
	"go/printer"
	"go/token"
	"go/types"
	mathrand "math/rand"
	"os"
	"path/filepath"
	"runtime"
	"sort"
	"strconv"
	"strings"

	"mvdan.cc/garble/internal/literals"
)

type script struct {
	base   string // "prng:<seed>", "zero", "max", "count"
	over   map[int]int64
	prng   mathrand.Source
	n      int
	sites  []string
	record bool
	cnt    int64
}

func newScript(base string, over map[int]int64, record bool) *script {
	s := &script{base: base, over: over, record: record}
	if strings.HasPrefix(base, "prng:") {
		seed, _ := strconv.ParseInt(base[5:], 10, 64)
		s.prng = mathrand.NewSource(seed)
	}
	return s
}

func (s *script) Seed(int64) {}

// drawBudget bounds one Obfuscate call: a constant stream can make a retry-until-different loop spin forever,
// which says nothing about a real generator; the harness reports such runs as inconclusive.
const drawBudget = 400000

func (s *script) Int63() int64 {
	i := s.n
	s.n++
	if s.n > drawBudget {
		panic("verif: draw budget exceeded")
	}
	var v int64
	switch {
	case s.prng != nil:
		v = s.prng.Int63()
	case s.base == "zero":
		// near-zero stream; a constant stream would spin forever inside math/rand's own rejection sampling
		v = []int64{0, 1, 2, 3, 5, 7, 11, 13}[i%8] << 32
	case s.base == "max":
		v = (1<<31-1-[]int64{0, 1, 2, 3, 5, 7, 4096, 1 << 20}[i%8])<<32 | 0xffffffff
	case s.base == "count":
		s.cnt += 0x0101010101010101
		v = s.cnt & (1<<63 - 1)
	}
	if o, ok := s.over[i]; ok {
		v = o
	}
	if s.record {
		s.sites = append(s.sites, callSite())
	}
	return v
}

func callSite() string {
	var pcs [24]uintptr
	n := runtime.Callers(3, pcs[:])
	frames := runtime.CallersFrames(pcs[:n])
	for {
		f, more := frames.Next()
		if strings.Contains(f.Function, "garble/internal/literals.") {
			name := f.Function[strings.Index(f.Function, "internal/literals.")+len("internal/literals."):]
			return name
		}
		if !more {
			return "?"
		}
	}
}

var altValues = []int64{
	0, 1 << 32, 2 << 32, 3 << 32, 7 << 32, 255 << 32, 256 << 32, (1<<31 - 2) << 32,
	0x00FFFFFF << 32, 1<<63 - 1, 0x0101010101010101,
}

type combo struct {
	Obf      int    `json:"obf"`
	Form     string `json:"form"`
	Data     []byte `json:"data"`
	Base     string `json:"base"`
	MaxOcc   int    `json:"max_occ"`  // occurrences per call site to deviate (0 = none)
	NAlt     int    `json:"n_alt"`    // how many alternative values per position
	Dev2     bool   `json:"dev2"`     // pairs of deviations on selected sites
	AllPos   bool   `json:"all_pos"`  // deviate every position (not only per-site occurrences)
}

type job struct {
	OutDir  string  `json:"outdir"`
	Shard   int     `json:"shard_size"`
	Combos  []combo `json:"combos"`
}

type instance struct {
	id     int
	combo  int
	over   map[int]int64
	src    string // obfuscated file
	expect []byte
	form   string
	desc   string
}

type result struct {
	Instances  int              `json:"instances"`
	Shards     int              `json:"shards"`
	Draws      int              `json:"draws_total"`
	Sites      map[string]int   `json:"site_deviations"`
	SiteValues map[string]int   `json:"site_distinct_values"`
	Untouched  int              `json:"untouched_ok"`
	Violations []map[string]string `json:"violations"`
	Descs      []string         `json:"descs"`
	Inconclusive []string       `json:"inconclusive"`
}

func literalSource(pkg, form string, data []byte) string {
	var b strings.Builder
	fmt.Fprintf(&b, "package %s\n\n", pkg)
	elems := func() string {
		var e []string
		for _, c := range data {
			e = append(e, strconv.Itoa(int(c)))
		}
		return strings.Join(e, ", ")
	}
	switch form {
	case "string":
		fmt.Fprintf(&b, "var V string = %s\n", strconv.Quote(string(data)))
	case "folded":
		h := len(data) / 2
		fmt.Fprintf(&b, "var V string = %s + %s\n", strconv.Quote(string(data[:h])), strconv.Quote(string(data[h:])))
	case "slice":
		fmt.Fprintf(&b, "var V = []byte{%s}\n", elems())
	case "array":
		fmt.Fprintf(&b, "var V = [%d]byte{%s}\n", len(data), elems())
	case "ptrslice":
		fmt.Fprintf(&b, "var V = &[]byte{%s}\n", elems())
	case "ptrarray":
		fmt.Fprintf(&b, "var V = &[%d]byte{%s}\n", len(data), elems())
	case "arg":
		fmt.Fprintf(&b, "func id(s string) string { return s }\n\nvar V string = id(%s)\n", strconv.Quote(string(data)))
	default:
		panic("form " + form)
	}
	return b.String()
}

func obfuscateOnce(id int, c combo, over map[int]int64, record bool) (src string, sc *script, err error) {
	defer func() {
		if r := recover(); r != nil {
			err = fmt.Errorf("panic in literals.Obfuscate: %v", r)
		}
	}()
	pkg := "p" + strconv.Itoa(c.Obf)
	text := literalSource(pkg, c.Form, c.Data)
	fset := token.NewFileSet()
	file, perr := parser.ParseFile(fset, "", text, parser.SkipObjectResolution)
	if perr != nil {
		return "", nil, perr
	}
	info := types.Info{Types: map[ast.Expr]types.TypeAndValue{}, Defs: map[*ast.Ident]types.Object{}, Uses: map[*ast.Ident]types.Object{}}
	var conf types.Config
	if _, terr := conf.Check("p", fset, []*ast.File{file}, &info); terr != nil {
		return "", nil, terr
	}
	sc = newScript(c.Base, over, record)
	rnd := mathrand.New(sc)
	nameCounter := 0
	nameFunc := func(r *mathrand.Rand, base string) string {
		var salt [15]byte
		r.Read(salt[:]) // consume what garble's randomName consumes
		nameCounter++
		return fmt.Sprintf("n%d_%d", id, nameCounter)
	}
	file = literals.Obfuscate(rnd, file, &info, nil, nameFunc)
	file.Name.Name = "main"
	for _, d := range file.Decls {
		switch d := d.(type) {
		case *ast.GenDecl:
			for _, s := range d.Specs {
				if vs, ok := s.(*ast.ValueSpec); ok {
					for _, n := range vs.Names {
						if n.Name == "V" {
							n.Name = "V_" + strconv.Itoa(id)
						}
					}
				}
			}
		case *ast.FuncDecl:
			if d.Name.Name == "id" {
				d.Name.Name = "id_" + strconv.Itoa(id)
			}
		}
	}
	ast.Inspect(file, func(n ast.Node) bool {
		if ce, ok := n.(*ast.CallExpr); ok {
			if idn, ok := ce.Fun.(*ast.Ident); ok && idn.Name == "id" {
				idn.Name = "id_" + strconv.Itoa(id)
			}
		}
		return true
	})
	var buf bytes.Buffer
	if perr := printer.Fprint(&buf, fset, file); perr != nil {
		return "", nil, perr
	}
	return buf.String(), sc, nil
}

var dev2Sites = []string{"randOperator", "genRandIntSlice", "generateSwapCount", "randExtKey", "byteLitWithExtKey", "swap.obfuscate", "shuffle.obfuscate", "split.obfuscate", "seed.obfuscate", "simple.obfuscate", "dataToByteSliceWithExtKeys", "splitIntoRandomChunks", "shuffleStmts"}

func main() {
	var j job
	if err := json.NewDecoder(os.Stdin).Decode(&j); err != nil {
		fmt.Fprintln(os.Stderr, "bad job:", err)
		os.Exit(2)
	}
	res := &result{Sites: map[string]int{}, SiteValues: map[string]int{}}
	siteVals := map[string]map[int64]bool{}
	var insts []instance
	addViolation := func(sig, what string) {
		for _, v := range res.Violations {
			if v["sig"] == sig {
				return
			}
		}
		res.Violations = append(res.Violations, map[string]string{"sig": sig, "what": what})
	}
	emit := func(ci int, c combo, over map[int]int64, desc string) {
		id := len(insts)
		src, _, err := obfuscateOnce(id, c, over, false)
		if err != nil {
			if strings.Contains(err.Error(), "draw budget exceeded") {
				res.Inconclusive = append(res.Inconclusive, desc)
				return
			}
			addViolation(fmt.Sprintf("obfuscate-error:obf%d:%s", c.Obf, c.Form), fmt.Sprintf("%s: %v", desc, err))
			return
		}
		insts = append(insts, instance{id: id, combo: ci, over: over, src: src, expect: c.Data, form: c.Form, desc: desc})
	}
	for ci, c := range j.Combos {
		base := fmt.Sprintf("obf=%d form=%s len=%d base=%s", c.Obf, c.Form, len(c.Data), c.Base)
		if len(c.Data) < literals.MinSize || len(c.Data) > literals.MaxSize {
			// must be left untouched
			src, _, err := obfuscateOnce(0, c, nil, false)
			orig := literalSource("main", c.Form, c.Data)
			norm := func(s string) string { return strings.Join(strings.Fields(strings.ReplaceAll(s, "V_0", "V")), " ") }
			if err != nil || norm(src) != norm(orig) {
				addViolation(fmt.Sprintf("out-of-window-touched:%s:len%d", c.Form, len(c.Data)), fmt.Sprintf("%s: literal outside the size window was rewritten (%v)", base, err))
			} else {
				res.Untouched++
			}
			continue
		}
		_, sc, err := obfuscateOnce(0, c, nil, true)
		if err != nil && strings.Contains(err.Error(), "draw budget exceeded") {
			res.Inconclusive = append(res.Inconclusive, base+" (base script)")
			continue
		}
		if err != nil {
			addViolation(fmt.Sprintf("obfuscate-error:obf%d:%s", c.Obf, c.Form), fmt.Sprintf("%s: %v", base, err))
			continue
		}
		// replay determinism: same script twice => same trace and output
		s1, sc1, _ := obfuscateOnce(0, c, nil, true)
		s2, sc2, _ := obfuscateOnce(0, c, nil, true)
		if s1 != s2 || sc1.n != sc2.n {
			addViolation("nondeterministic-under-script", base+": two runs under the same scripted source differ (a source of randomness is not the seeded generator)")
		}
		res.Draws += sc.n
		emit(ci, c, nil, base+" default")
		occ := map[string]int{}
		var selected []int
		for pos, site := range sc.sites {
			occ[site]++
			if c.AllPos || occ[site] <= c.MaxOcc {
				selected = append(selected, pos)
			}
		}
		for _, pos := range selected {
			site := sc.sites[pos]
			for ai := 0; ai < c.NAlt && ai < len(altValues); ai++ {
				emit(ci, c, map[int]int64{pos: altValues[ai]}, fmt.Sprintf("%s dev@%d(%s)=%#x", base, pos, site, altValues[ai]))
				res.Sites[site]++
				if siteVals[site] == nil {
					siteVals[site] = map[int64]bool{}
				}
				siteVals[site][altValues[ai]] = true
			}
		}
		if c.Dev2 {
			var sel2 []int
			occ2 := map[string]int{}
			for pos, site := range sc.sites {
				for _, ds := range dev2Sites {
					if strings.HasPrefix(site, ds) || strings.Contains(site, ds) {
						occ2[site]++
						if occ2[site] <= 2 {
							sel2 = append(sel2, pos)
						}
						break
					}
				}
			}
			alts := []int64{0, 255 << 32, 1<<63 - 1}
			for x := 0; x < len(sel2); x++ {
				for y := x + 1; y < len(sel2); y++ {
					for _, a := range alts {
						for _, b := range alts {
							emit(ci, c, map[int]int64{sel2[x]: a, sel2[y]: b}, fmt.Sprintf("%s dev2@%d(%s)=%#x,@%d(%s)=%#x", base, sel2[x], sc.sites[sel2[x]], a, sel2[y], sc.sites[sel2[y]], b))
						}
					}
				}
			}
		}
	}
	for s, m := range siteVals {
		res.SiteValues[s] = len(m)
	}
	// write shards
	if j.Shard <= 0 {
		j.Shard = 400
	}
	for s := 0; s*j.Shard < len(insts); s++ {
		dir := filepath.Join(j.OutDir, fmt.Sprintf("shard%03d", s))
		os.MkdirAll(dir, 0o755)
		end := min((s+1)*j.Shard, len(insts))
		var mainb strings.Builder
		mainb.WriteString("package main\n\nimport (\n\t\"bytes\"\n\t\"fmt\"\n)\n\nfunc main() {\n\tbad := 0\n")
		for _, in := range insts[s*j.Shard : end] {
			os.WriteFile(filepath.Join(dir, fmt.Sprintf("lit_%d.go", in.id)), []byte(in.src), 0o644)
			var got string
			switch in.form {
			case "string", "folded", "arg":
				got = fmt.Sprintf("[]byte(V_%d)", in.id)
			case "slice":
				got = fmt.Sprintf("V_%d", in.id)
			case "array":
				got = fmt.Sprintf("V_%d[:]", in.id)
			case "ptrslice":
				got = fmt.Sprintf("*V_%d", in.id)
			case "ptrarray":
				got = fmt.Sprintf("(*V_%d)[:]", in.id)
			}
			fmt.Fprintf(&mainb, "\tif !bytes.Equal(%s, []byte(%s)) {\n\t\tbad++\n\t\tfmt.Printf(\"BAD %d %%q\\n\", %s)\n\t}\n", got, strconv.Quote(string(in.expect)), in.id, got)
		}
		mainb.WriteString("\tfmt.Println(\"DONE\", bad)\n}\n")
		os.WriteFile(filepath.Join(dir, "main.go"), []byte(mainb.String()), 0o644)
		os.WriteFile(filepath.Join(dir, "go.mod"), []byte("module shard\n\ngo 1.26\n"), 0o644)
		res.Shards++
	}
	res.Instances = len(insts)
	for _, in := range insts {
		res.Descs = append(res.Descs, in.desc)
	}
	_ = sort.Strings
	json.NewEncoder(os.Stdout).Encode(res)
}
