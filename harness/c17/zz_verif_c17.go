//go:build verif

// Engine D harness for the patched-linker cache protocol (C17, linker part of C18). This file is added
// to package linker by build overlay so that it drives the real PatchLinker; linker.go itself is compiled
// with its os / os/exec / lockedfile imports redirected to the shim packages (see DESIGN.md 3.D).
package linker

import (
	"bytes"
	"encoding/json"
	"fmt"
	"io"
	realos "os"
	"path/filepath"
	"strings"

	"mvdan.cc/garble/internal/verif/sched"
	"mvdan.cc/garble/internal/verif/vexec"
	"mvdan.cc/garble/internal/verif/vlockedfile"
	"mvdan.cc/garble/internal/verif/vos"
)

type c17Ctx struct {
	goVersion string
	started   bool
	finished  bool
	failed    string
	ranImage  []byte
	ranOK     bool
	private   string
}

type C17Scenario struct {
	Name        string   `json:"name"`
	Versions    []string `json:"versions"` // goVersion per process
	Init        string   `json:"init"`     // empty | valid | stamp-only | link-only | stale
	Install     string   `json:"install"`  // rename | copy
	Bound       int      `json:"bound"`    // preemption bound, -1 unbounded
	Crashes     int      `json:"crashes"`
	MaxExec     int      `json:"max_exec"`
	UnlockEarly bool     `json:"unlock_early"` // driver order as extracted from main.go
}

type C17Report struct {
	Scenario    C17Scenario `json:"scenario"`
	Executions  int         `json:"executions"`
	Transitions int         `json:"transitions"`
	States      int         `json:"distinct_states"`
	Outcomes    int         `json:"distinct_outcomes"`
	MaxDepth    int         `json:"max_depth"`
	Deadlocks   int         `json:"deadlocks"`
	Capped      bool        `json:"capped"`
	Builds      map[int]int `json:"linker_builds_histogram"`
	Violation   string      `json:"violation,omitempty"`
	Schedule    []int       `json:"schedule,omitempty"`
	Trace       []string    `json:"trace,omitempty"`
	Sample      []string    `json:"sample_trace"`
	Replayed    bool        `json:"violation_replayed_identically"`
}

const c17Chunks = 3

func c17Image(goVersion string) []byte {
	var b bytes.Buffer
	for i := 0; i < c17Chunks; i++ {
		fmt.Fprintf(&b, "LINKER %s chunk %d %s\n", goVersion, i, strings.Repeat("x", 40))
	}
	return b.Bytes()
}

func c17RunScenario(sc C17Scenario, root string) *C17Report {
	rep := &C17Report{Scenario: sc, Builds: map[int]int{}}
	patchesVer, modFiles, patches, err := loadLinkerPatches("go1.26")
	if err != nil {
		panic(err)
	}
	fakeRoot := filepath.Join(root, "goroot")
	for f := range modFiles {
		p := filepath.Join(fakeRoot, "src", f)
		realos.MkdirAll(filepath.Dir(p), 0o777)
		realos.WriteFile(p, []byte("package x\n"), 0o666)
	}
	shared := filepath.Join(root, "cache")
	builds := 0
	execN := 0
	vexec.Handlers["git"] = func(c *vexec.Cmd) ([]byte, error) {
		var b bytes.Buffer
		for i := range patches {
			fmt.Fprintf(&b, "Applied patch p%d cleanly.\n", i)
		}
		return b.Bytes(), nil
	}
	vexec.Handlers["go"] = func(c *vexec.Cmd) ([]byte, error) {
		out := ""
		for i, a := range c.Args {
			if a == "-o" && i+1 < len(c.Args) {
				out = c.Args[i+1]
			}
		}
		p := sched.Cur()
		ctx := p.Data.(*c17Ctx)
		img := c17Image(ctx.goVersion)
		builds++
		// cmd/go takes an existing output for up to date when the build ID stored at its start carries the expected
		// action ID; the rest of the file is not looked at (probed against the real go command by checks/c17.py).
		if old, err := realos.ReadFile(out); err == nil {
			if nl := bytes.IndexByte(img, '\n'); nl > 0 && bytes.HasPrefix(old, img[:nl+1]) {
				sched.Yield("go build -o: existing output carries the expected build ID, left alone", nil)
				if p.Dead {
					return nil, realos.ErrClosed
				}
				return nil, nil
			}
		}
		// cmd/go first probes the destination directory with a temporary file, then tries to rename the
		// built binary into place; across file systems the rename fails (EXDEV) and it copies in place.
		tmp := out + "-go-tmp-umask"
		if f, err := vos.OpenFile(tmp, vos.O_WRONLY|vos.O_CREATE|vos.O_EXCL, 0o666); err == nil {
			f.Close()
		} else if p.Dead {
			return nil, err
		}
		vos.Remove(tmp)
		if sc.Install == "rename" {
			aout := filepath.Join(ctx.private, "a.out")
			realos.WriteFile(aout, img, 0o777)
			if err := vos.Rename(aout, out); err != nil {
				return []byte(err.Error()), err
			}
			return nil, nil
		}
		sched.Yield("rename (fails: EXDEV) -> /tool/link", nil)
		if p.Dead {
			return nil, realos.ErrClosed
		}
		f, err := vos.OpenFile(out, vos.O_WRONLY|vos.O_CREATE|vos.O_TRUNC, 0o777)
		if err != nil {
			return []byte(err.Error()), err
		}
		n := len(img) / c17Chunks
		for i := 0; i < c17Chunks; i++ {
			end := (i + 1) * n
			if i == c17Chunks-1 {
				end = len(img)
			}
			if _, err := f.Write(img[i*n : end]); err != nil {
				return []byte(err.Error()), err
			}
		}
		return nil, f.Close()
	}
	mk := func() []*sched.Proc {
		// fresh world
		realos.RemoveAll(shared)
		realos.MkdirAll(filepath.Join(shared, "tool"), 0o777)
		vos.Shared = shared
		vos.Reset()
		vlockedfile.Reset()
		builds = 0
		link := filepath.Join(shared, "tool", "link")
		v0 := sc.Versions[0]
		switch sc.Init {
		case "valid":
			realos.WriteFile(link, c17Image(v0), 0o777)
			realos.WriteFile(link+versionExt, []byte(getCurrentVersion(v0, patchesVer)), 0o666)
		case "stamp-only":
			realos.WriteFile(link+versionExt, []byte(getCurrentVersion(v0, patchesVer)), 0o666)
		case "link-only":
			realos.WriteFile(link, c17Image(v0), 0o777)
		case "stale":
			realos.WriteFile(link, c17Image("go1.26.0"), 0o777)
			realos.WriteFile(link+versionExt, []byte(getCurrentVersion("go1.26.0", patchesVer)), 0o666)
		}
		var procs []*sched.Proc
		for i, v := range sc.Versions {
			ctx := &c17Ctx{goVersion: v, private: filepath.Join(root, fmt.Sprintf("priv%d", i))}
			realos.RemoveAll(ctx.private)
			realos.MkdirAll(ctx.private, 0o777)
			procs = append(procs, sched.NewProc(i, fmt.Sprintf("P%d(%s)", i, v), ctx, func(p *sched.Proc) {
				ctx := p.Data.(*c17Ctx)
				ctx.started = true
				path, unlock, err := PatchLinker(fakeRoot, ctx.goVersion, shared, ctx.private)
				if err != nil {
					ctx.failed = err.Error()
					ctx.finished = true
					return
				}
				if sc.UnlockEarly {
					unlock()
				} else {
					defer unlock()
				}
				// "execute" the linker: the kernel maps the file as it is at exec time
				f, err := vos.Open(path)
				if err != nil {
					ctx.failed = "exec: " + err.Error()
					ctx.finished = true
					return
				}
				data, _ := io.ReadAll(f)
				f.Close()
				ctx.ranImage = data
				ctx.ranOK = bytes.Equal(data, c17Image(ctx.goVersion))
				ctx.finished = true
			}))
		}
		return procs
	}
	onCrash := func(p *sched.Proc) {
		vos.CloseAll(p)
		vlockedfile.ReleaseAll(p)
	}
	states := map[string]bool{}
	outcomes := map[string]bool{}
	check := func(e *sched.Exec) bool {
		execN++
		rep.Builds[builds]++
		if len(rep.Sample) == 0 || (execN == 7) {
			rep.Sample = append([]string(nil), e.Trace...)
		}
		var out []string
		viol := ""
		if e.Deadlock {
			viol = "deadlock: no process can make progress"
		}
		if e.Horizon {
			viol = "execution did not terminate within the step horizon"
		}
		for _, p := range e.Procs {
			ctx := p.Data.(*c17Ctx)
			crashed := false
			for _, t := range e.Trace {
				if strings.HasPrefix(t, "CRASH "+p.Name) {
					crashed = true
				}
			}
			switch {
			case crashed:
				out = append(out, "crashed")
			case ctx.failed != "":
				out = append(out, "failed")
				if viol == "" {
					viol = fmt.Sprintf("%s failed: %s", p.Name, ctx.failed)
				}
			case !ctx.finished:
				out = append(out, "unfinished")
				if viol == "" && !e.Deadlock {
					viol = fmt.Sprintf("%s did not finish", p.Name)
				}
			case !ctx.ranOK:
				out = append(out, "ran-bad-linker")
				if viol == "" {
					viol = fmt.Sprintf("%s executed a linker that is not the complete image of its version (%d bytes, starts %q)", p.Name, len(ctx.ranImage), firstLine(ctx.ranImage))
				}
			default:
				out = append(out, "ok")
			}
		}
		// final shared state
		link, _ := realos.ReadFile(filepath.Join(shared, "tool", "link"))
		stamp, _ := realos.ReadFile(filepath.Join(shared, "tool", "link.version"))
		key := fmt.Sprintf("%v|%q|%q", out, firstLine(link), firstLine(stamp))
		states[key+fmt.Sprint(len(link))] = true
		outcomes[strings.Join(out, ",")] = true
		if viol != "" && rep.Violation == "" {
			rep.Violation = viol
			rep.Schedule = append([]int(nil), e.Choices...)
			rep.Trace = append([]string(nil), e.Trace...)
			return false
		}
		return true
	}
	st := sched.Explore(sc.Bound, sc.Crashes, sc.MaxExec, onCrash, mk, check)
	rep.Executions, rep.Transitions, rep.MaxDepth, rep.Deadlocks, rep.Capped = st.Executions, st.Transitions, st.MaxDepth, st.Deadlocks, st.Capped
	rep.States, rep.Outcomes = len(states), len(outcomes)
	if rep.Violation != "" {
		// replay the recorded schedule twice without the explorer; it must fail identically
		same := true
		for k := 0; k < 2; k++ {
			e := sched.Run(rep.Schedule, sc.Crashes, onCrash, mk)
			if strings.Join(e.Trace, "\n") != strings.Join(rep.Trace, "\n") {
				same = false
			}
		}
		rep.Replayed = same
	}
	return rep
}

func firstLine(b []byte) string {
	if i := bytes.IndexByte(b, '\n'); i >= 0 {
		return string(b[:i])
	}
	return string(b)
}

// VerifC17Main reads scenarios (JSON list) on stdin and writes reports (JSON list) on stdout.
func VerifC17Main() {
	var scs []C17Scenario
	if err := json.NewDecoder(realos.Stdin).Decode(&scs); err != nil {
		fmt.Fprintln(realos.Stderr, err)
		realos.Exit(2)
	}
	root := realos.Getenv("VERIF_C17_ROOT")
	var reps []*C17Report
	for _, sc := range scs {
		reps = append(reps, c17RunScenario(sc, root))
	}
	json.NewEncoder(realos.Stdout).Encode(reps)
}
