//go:build verif

package main

import "mvdan.cc/garble/internal/linker"

func main() { linker.VerifC17Main() }
