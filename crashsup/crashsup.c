/* crashsup: ptrace supervisor for crash-point enumeration (engine C, property C18).
 *
 * usage: crashsup [-t trackeddir]... [-k K] -l logfile -- command args...
 *
 * Follows the whole process tree of the command, numbers every file-system mutating system call that
 * touches one of the tracked directory trees (at syscall entry, i.e. before it takes effect) and appends
 * "<n>\t<pid>\t<syscall>\t<path>[\t<path2>]" to the log. With -k K (K >= 1) the supervisor exits just
 * before mutation number K is executed; PTRACE_O_EXITKILL then makes the kernel SIGKILL every tracee at
 * once: a real kill -9 of the tree at a mutation boundary. Exit status: the command's, or 99 after a kill.
 */
#define _GNU_SOURCE
#include <errno.h>
#include <fcntl.h>
#include <limits.h>
#include <signal.h>
#include <stdint.h>
#include <stdio.h>
#include <stdlib.h>
#include <string.h>
#include <sys/ptrace.h>
#include <sys/syscall.h>
#include <sys/types.h>
#include <sys/uio.h>
#include <sys/wait.h>
#include <unistd.h>


#define MAXTRACK 16
static const char *tracked[MAXTRACK];
static int ntracked;
static long killat = 0, counter = 0;
static FILE *logf;

#define MAXPID 4194304
static unsigned char *seen; /* pid -> already attached (initial SIGSTOP swallowed) */

static int in_tracked(const char *p) {
	for (int i = 0; i < ntracked; i++) {
		size_t n = strlen(tracked[i]);
		if (strncmp(p, tracked[i], n) == 0 && (p[n] == '/' || p[n] == 0)) return 1;
	}
	return 0;
}

static int read_str(pid_t pid, uint64_t addr, char *buf, size_t max) {
	size_t off = 0;
	while (off < max - 1) {
		size_t chunk = 256 - (addr + off) % 256;
		if (chunk > max - 1 - off) chunk = max - 1 - off;
		struct iovec l = {buf + off, chunk}, r = {(void *)(addr + off), chunk};
		ssize_t n = process_vm_readv(pid, &l, 1, &r, 1, 0);
		if (n <= 0) break;
		for (ssize_t i = 0; i < n; i++)
			if (buf[off + i] == 0) return 0;
		off += n;
	}
	buf[off] = 0;
	return 0;
}

static void fd_path(pid_t pid, int fd, char *out, size_t max) {
	char link[64];
	if (fd == AT_FDCWD) snprintf(link, sizeof link, "/proc/%d/cwd", pid);
	else snprintf(link, sizeof link, "/proc/%d/fd/%d", pid, fd);
	ssize_t n = readlink(link, out, max - 1);
	if (n < 0) n = 0;
	out[n] = 0;
}

static void resolve(pid_t pid, int dirfd, uint64_t addr, char *out, size_t max) {
	char p[PATH_MAX];
	read_str(pid, addr, p, sizeof p);
	if (p[0] == '/') { snprintf(out, max, "%s", p); return; }
	char dir[PATH_MAX];
	fd_path(pid, dirfd, dir, sizeof dir);
	snprintf(out, max, "%s/%s", dir, p);
}

static void mutation(pid_t pid, const char *name, const char *p1, const char *p2) {
	counter++;
	if (p2) fprintf(logf, "%ld\t%d\t%s\t%s\t%s\n", counter, pid, name, p1, p2);
	else fprintf(logf, "%ld\t%d\t%s\t%s\n", counter, pid, name, p1);
	fflush(logf);
	if (killat > 0 && counter == killat) {
		fprintf(logf, "KILL before %ld\n", counter);
		fflush(logf);
		_exit(99); /* PTRACE_O_EXITKILL: every tracee gets SIGKILL */
	}
}

static void on_syscall_entry(pid_t pid, uint64_t nr, uint64_t *a) {
	char p1[PATH_MAX * 2], p2[PATH_MAX * 2];
	switch (nr) {
	case SYS_openat:
	case SYS_open:
	case SYS_creat: {
		int flags = nr == SYS_openat ? (int)a[2] : (nr == SYS_open ? (int)a[1] : (O_CREAT | O_WRONLY | O_TRUNC));
		if (!(flags & (O_WRONLY | O_RDWR | O_CREAT | O_TRUNC))) return;
		if (nr == SYS_openat) resolve(pid, (int)a[0], a[1], p1, sizeof p1);
		else resolve(pid, AT_FDCWD, a[0], p1, sizeof p1);
		if (!in_tracked(p1)) return;
		char nm[64];
		snprintf(nm, sizeof nm, "open(%s%s%s%s)", (flags & O_CREAT) ? "C" : "", (flags & O_TRUNC) ? "T" : "", (flags & O_EXCL) ? "X" : "",
		         (flags & O_RDWR) ? "rw" : ((flags & O_WRONLY) ? "w" : "r"));
		mutation(pid, nm, p1, NULL);
		return;
	}
	case SYS_write:
	case SYS_pwrite64:
	case SYS_writev:
	case SYS_ftruncate:
	case SYS_fchmod:
	case SYS_fallocate:
		fd_path(pid, (int)a[0], p1, sizeof p1);
		if (!in_tracked(p1)) return;
		mutation(pid, nr == SYS_ftruncate ? "ftruncate" : (nr == SYS_fchmod ? "fchmod" : (nr == SYS_fallocate ? "fallocate" : "write")), p1, NULL);
		return;
	case SYS_copy_file_range:
	case SYS_sendfile:
		fd_path(pid, nr == SYS_sendfile ? (int)a[0] : (int)a[2], p1, sizeof p1);
		if (!in_tracked(p1)) return;
		mutation(pid, "copy", p1, NULL);
		return;
	case SYS_renameat:
	case SYS_renameat2:
		resolve(pid, (int)a[0], a[1], p1, sizeof p1);
		resolve(pid, (int)a[2], a[3], p2, sizeof p2);
		if (!in_tracked(p1) && !in_tracked(p2)) return;
		mutation(pid, "rename", p1, p2);
		return;
	case SYS_rename:
		resolve(pid, AT_FDCWD, a[0], p1, sizeof p1);
		resolve(pid, AT_FDCWD, a[1], p2, sizeof p2);
		if (!in_tracked(p1) && !in_tracked(p2)) return;
		mutation(pid, "rename", p1, p2);
		return;
	case SYS_unlinkat:
		resolve(pid, (int)a[0], a[1], p1, sizeof p1);
		if (!in_tracked(p1)) return;
		mutation(pid, "unlink", p1, NULL);
		return;
	case SYS_unlink:
	case SYS_rmdir:
		resolve(pid, AT_FDCWD, a[0], p1, sizeof p1);
		if (!in_tracked(p1)) return;
		mutation(pid, "unlink", p1, NULL);
		return;
	case SYS_mkdirat:
		resolve(pid, (int)a[0], a[1], p1, sizeof p1);
		if (!in_tracked(p1)) return;
		mutation(pid, "mkdir", p1, NULL);
		return;
	case SYS_mkdir:
		resolve(pid, AT_FDCWD, a[0], p1, sizeof p1);
		if (!in_tracked(p1)) return;
		mutation(pid, "mkdir", p1, NULL);
		return;
	case SYS_truncate:
		resolve(pid, AT_FDCWD, a[0], p1, sizeof p1);
		if (!in_tracked(p1)) return;
		mutation(pid, "truncate", p1, NULL);
		return;
	case SYS_linkat:
		resolve(pid, (int)a[0], a[1], p1, sizeof p1);
		resolve(pid, (int)a[2], a[3], p2, sizeof p2);
		if (!in_tracked(p2)) return;
		mutation(pid, "link", p1, p2);
		return;
	case SYS_symlinkat:
		resolve(pid, (int)a[1], a[2], p1, sizeof p1);
		if (!in_tracked(p1)) return;
		mutation(pid, "symlink", p1, NULL);
		return;
	case SYS_fchmodat:
	case SYS_utimensat:
		if (a[1] == 0) fd_path(pid, (int)a[0], p1, sizeof p1);
		else resolve(pid, (int)a[0], a[1], p1, sizeof p1);
		if (!in_tracked(p1)) return;
		mutation(pid, nr == SYS_fchmodat ? "chmod" : "utimens", p1, NULL);
		return;
	case SYS_chmod:
		resolve(pid, AT_FDCWD, a[0], p1, sizeof p1);
		if (!in_tracked(p1)) return;
		mutation(pid, "chmod", p1, NULL);
		return;
	}
}

int main(int argc, char **argv) {
	const char *logpath = NULL;
	int i = 1;
	for (; i < argc; i++) {
		if (!strcmp(argv[i], "--")) { i++; break; }
		if (!strcmp(argv[i], "-t") && i + 1 < argc && ntracked < MAXTRACK) tracked[ntracked++] = argv[++i];
		else if (!strcmp(argv[i], "-k") && i + 1 < argc) killat = atol(argv[++i]);
		else if (!strcmp(argv[i], "-l") && i + 1 < argc) logpath = argv[++i];
		else { fprintf(stderr, "crashsup: bad argument %s\n", argv[i]); return 2; }
	}
	if (i >= argc || !logpath) { fprintf(stderr, "usage: crashsup [-t dir]... [-k K] -l log -- cmd...\n"); return 2; }
	logf = fopen(logpath, "w");
	if (!logf) { perror("crashsup: log"); return 2; }
	seen = calloc(MAXPID, 1);
	pid_t child = fork();
	if (child < 0) { perror("fork"); return 2; }
	if (child == 0) {
		ptrace(PTRACE_TRACEME, 0, 0, 0);
		raise(SIGSTOP);
		execvp(argv[i], argv + i);
		perror("crashsup: exec");
		_exit(127);
	}
	int status;
	waitpid(child, &status, 0);
	long opts = PTRACE_O_TRACESYSGOOD | PTRACE_O_TRACEFORK | PTRACE_O_TRACEVFORK | PTRACE_O_TRACECLONE | PTRACE_O_TRACEEXEC | PTRACE_O_EXITKILL;
	if (ptrace(PTRACE_SETOPTIONS, child, 0, opts) < 0) { perror("crashsup: setoptions"); return 2; }
	seen[child] = 1;
	ptrace(PTRACE_SYSCALL, child, 0, 0);
	int exitcode = 0;
	for (;;) {
		pid_t pid = waitpid(-1, &status, __WALL);
		if (pid < 0) {
			if (errno == ECHILD) break;
			if (errno == EINTR) continue;
			perror("crashsup: waitpid");
			break;
		}
		if (WIFEXITED(status) || WIFSIGNALED(status)) {
			if (pid == child) exitcode = WIFEXITED(status) ? WEXITSTATUS(status) : 128 + WTERMSIG(status);
			continue;
		}
		if (!WIFSTOPPED(status)) continue;
		int sig = WSTOPSIG(status);
		int deliver = 0;
		if (sig == (SIGTRAP | 0x80)) {
			struct __ptrace_syscall_info info;
			long r = ptrace(PTRACE_GET_SYSCALL_INFO, pid, sizeof info, &info);
			if (r > 0 && info.op == PTRACE_SYSCALL_INFO_ENTRY) on_syscall_entry(pid, info.entry.nr, (uint64_t *)info.entry.args);
		} else if (sig == SIGTRAP && (status >> 16) != 0) {
			/* fork/vfork/clone/exec event: nothing to do, the new task is attached automatically */
		} else if (sig == SIGSTOP && pid < MAXPID && !seen[pid]) {
			seen[pid] = 1; /* initial stop of an auto-attached task */
		} else if ((status >> 16) == PTRACE_EVENT_STOP) {
			/* group stop */
		} else {
			deliver = sig;
		}
		if (pid < MAXPID) seen[pid] = 1;
		ptrace(PTRACE_SYSCALL, pid, 0, deliver);
	}
	fprintf(logf, "END %ld exit=%d\n", counter, exitcode);
	fclose(logf);
	return exitcode;
}
